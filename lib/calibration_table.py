#!/usr/bin/env python3
"""Prints the calibration table of DESIGN.md 11.5 from seeded/*/meta.json + results.json."""
import glob, json, os
rows = []
for d in sorted(glob.glob(os.path.join(os.path.dirname(os.path.dirname(os.path.abspath(__file__))), "seeded", "S*"))):
    m = json.load(open(os.path.join(d, "meta.json")))
    r = json.load(open(os.path.join(d, "results.json")))
    caught = [p for p, x in sorted(r.items()) if x["exit"] == 1]
    before = None
    for bf in sorted(glob.glob(os.path.join(d, "results_round*_before_strengthening.json"))):
        before = [p for p, x in sorted(json.load(open(bf)).items()) if x["exit"] == 1]
    clean = lambda t: (t or "").replace("\n", " ").replace("|", "/")
    rows.append((os.path.basename(d), m["breaks_property"], clean(m.get("summary"))[:150], "", caught, before))
print("| id | breaks | change (by an independent sub-agent; full text in seeded/<id>/meta.json) | quick checks that fire |")
print("|---|---|---|---|")
for r in rows:
    extra = ""
    if r[5] is not None and set(r[5]) != set(r[4]):
        extra = " (before strengthening: %s)" % (", ".join(r[5]) or "none")
    print("| %s | %s | %s | %s%s |" % (r[0], r[1], r[2], ", ".join(r[4]) or "NONE", extra))
print()
print("%d seeded changes; caught by the check of the property they target: %d; caught by some check: %d" % (
    len(rows), sum(1 for r in rows if r[1] in r[4]), sum(1 for r in rows if r[4])))
