#!/usr/bin/env python3
"""Calibration helper for seeded defects (DESIGN section 8).

  seeded.py verify <worktree> <src_dir>        confirm a candidate in a scratch worktree:
                                               patch applies, full suite green, demo fails with / passes without
  seeded.py run <seeded_dir> [PROP ...]        apply /verif/seeded/<id>/patch.diff to /repo, run the quick checks
                                               (all 20 unless given), record which fire, undo the patch
"""
import json, os, shutil, subprocess, sys, time

ENV = dict(os.environ, CARGO_NET_OFFLINE="true")
PROPS = ["C%02d" % i for i in range(1, 21)]


def sh(cmd, cwd, env=None, timeout=3600):
    p = subprocess.run(cmd, cwd=cwd, env=env or ENV, stdout=subprocess.PIPE, stderr=subprocess.STDOUT, text=True, timeout=timeout)
    return p.returncode, p.stdout


def verify(wt, src):
    env = dict(ENV, CARGO_TARGET_DIR="/tmp/wt/target-" + os.path.basename(wt.rstrip("/")))
    patch = os.path.join(src, "patch.diff")
    demo = os.path.join(src, "demo.rs")
    out = {}
    sh(["git", "checkout", "--", "."], wt)
    sh(["git", "clean", "-fdq", "crates", "src", "tests"], wt)
    rc, o = sh(["git", "apply", "--check", patch], wt)
    out["applies"] = rc == 0
    if rc != 0:
        print(json.dumps(out)); print(o[-800:]); return 1
    sh(["git", "apply", patch], wt)
    # grammar inputs are not tracked by cargo
    sh(["cargo", "clean", "--offline", "-p", "iref-core", "-p", "iref-macros", "-p", "iref"], wt, env)
    rc, o = sh(["cargo", "test", "--workspace", "--offline"], wt, env)
    out["suite_green_with_patch"] = rc == 0
    if rc != 0:
        print(o[-1500:])
    os.makedirs(os.path.join(wt, "tests"), exist_ok=True)
    shutil.copy(demo, os.path.join(wt, "tests", "demo.rs"))
    rc, o = sh(["cargo", "test", "--offline", "--all-features", "--test", "demo"], wt, env)
    out["demo_fails_with_patch"] = rc != 0
    out["demo_output_with_patch"] = "\n".join([l for l in o.splitlines() if "panicked" in l or "assert" in l or "test result" in l][:6])
    os.remove(os.path.join(wt, "tests", "demo.rs"))
    sh(["git", "checkout", "--", "."], wt)
    sh(["git", "clean", "-fdq", "crates", "src"], wt)
    sh(["cargo", "clean", "--offline", "-p", "iref-core", "-p", "iref-macros", "-p", "iref"], wt, env)
    shutil.copy(demo, os.path.join(wt, "tests", "demo.rs"))
    rc, o = sh(["cargo", "test", "--offline", "--all-features", "--test", "demo"], wt, env)
    out["demo_passes_without_patch"] = rc == 0
    if rc != 0:
        print(o[-1500:])
    os.remove(os.path.join(wt, "tests", "demo.rs"))
    try:
        os.rmdir(os.path.join(wt, "tests"))
    except OSError:
        pass
    out["ok"] = all(out[k] for k in ("applies", "suite_green_with_patch", "demo_fails_with_patch", "demo_passes_without_patch"))
    print(json.dumps(out, indent=1))
    return 0 if out["ok"] else 1


def run(sdir, props):
    # by default the patch goes onto /repo itself; SEEDED_REPO / SEEDED_VERIF name a scratch worktree of
    # /repo (same HEAD) and a worktree of /verif whose harness depends on it, so that a sweep over
    # many patches can run while /repo stays untouched
    REPO = os.environ.get("SEEDED_REPO", "/repo")
    VERIF = os.environ.get("SEEDED_VERIF", "/verif")
    env = dict(ENV, IREF_REPO=REPO)
    patch = os.path.join(sdir, "patch.diff")
    rc, o = sh(["git", "-C", REPO, "status", "--porcelain"], REPO)
    if o.strip():
        print("refusing: /repo is not clean:\n" + o); return 2
    rc, o = sh(["git", "-C", REPO, "apply", patch], REPO)
    if rc != 0:
        print("patch does not apply to /repo:\n" + o[-600:]); return 2
    results = {}
    try:
        for p in props:
            t0 = time.time()
            rc, o = sh(["./check", p, "quick"], VERIF, env=env, timeout=3000)
            lines = [l for l in o.splitlines() if l.startswith("VIOLATION") or l.startswith("INCONCLUSIVE") or l.startswith("  C")]
            results[p] = {"exit": rc, "wall_s": round(time.time() - t0, 1), "first": lines[:2]}
            print(p, rc, (lines[1][:200] if len(lines) > 1 else (lines[0][:200] if lines else "")), flush=True)
    finally:
        sh(["git", "-C", REPO, "checkout", "--", "."], REPO)
        sh(["git", "-C", REPO, "clean", "-fdq", "crates", "src"], REPO)
        shutil.rmtree(os.path.join(VERIF, "evidence/replay"), ignore_errors=True)
    json.dump(results, open(os.path.join(sdir, os.environ.get("SEEDED_RESULTS", "results.json")), "w"), indent=1)
    caught = [p for p, r in results.items() if r["exit"] == 1]
    print("caught by:", caught)
    return 0


if __name__ == "__main__":
    if sys.argv[1] == "verify":
        sys.exit(verify(sys.argv[2], sys.argv[3]))
    elif sys.argv[1] == "run":
        sys.exit(run(sys.argv[2], sys.argv[3:] or PROPS))
