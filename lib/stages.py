"""Extra per-property stages run by ./check after the native monitors:
sanitizer runs (Miri, AddressSanitizer), the C01 cache-free configuration and
the C17 generated crate.  Each stage returns
{name, info, violations: [...], inconclusive: str|None}."""


def setup(env, say):
    """Called by ./check --build (MANIFEST.setup_cmd)."""
    return None


def for_property(prop, tier):
    return []
