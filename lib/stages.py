"""Extra per-property stages run by ./check after (or instead of) the native
monitors: the C17 generated crates, sanitizer runs (Miri, AddressSanitizer) and
the C01 cache-free configuration.  Each stage returns
{name, info, violations: [...], inconclusive: str|None} and, for a stage that
replaces the native worker (C17), also "result" in the worker's JSON format."""
import json
import os
import re
import shutil
import subprocess
import time

STAGE_ONLY = {"C17"}


def setup(env, say):
    """Called by ./check --build (MANIFEST.setup_cmd)."""
    return None


def for_property(prop, tier):
    st = []
    if prop == "C17":
        st.append(c17)
    if tier == "thorough" and prop in MIRI_PROPS:
        st.append(miri_stage)
    if tier == "thorough" and prop in MIRI_SAMPLED_PROPS:
        st.append(miri_sampled_stage)
    if tier == "thorough" and prop in ASAN_PROPS:
        st.append(asan_stage)
    if tier == "thorough" and prop == "C01":
        st.append(c01_config_b)
    return st


MIRI_PROPS = {"C04", "C10", "C11", "C19", "C20"}
# properties whose monitors have no workload sized for an interpreter: a uniform sample of the
# quick workload (stratified by sub-monitor) is drawn natively and replayed under Miri
MIRI_SAMPLED_PROPS = {"C01", "C02", "C03", "C05", "C06", "C07", "C08", "C09", "C12", "C13", "C14", "C15", "C16", "C18"}
# cases replayed per property (whole run, 16 processes) and the largest case (argument bytes) offered to
# the sample: the equivalence monitors run many comparisons per case and are sized down
MIRI_SAMPLE_TOTAL = {"C07": 48, "C08": 48, "C13": 96, "C01": 320, "C02": 320, "C03": 320, "C06": 320}
MIRI_SAMPLE_DEFAULT = 128
MIRI_SAMPLE_MAX_BYTES = {"C07": 300, "C08": 300, "C13": 300}
# sub-monitors left to the native run and ASan: one "alias" case compares every prefix and suffix view of a
# buffer with every other (thousands of comparisons), minutes per case under the interpreter
MIRI_SAMPLE_SKIP = {"C07": {"alias"}, "C08": {"alias"}}
ASAN_PROPS = {"C01", "C02", "C03", "C04", "C05", "C06", "C07", "C08", "C09", "C10", "C11", "C12", "C13", "C14", "C15", "C16", "C18", "C19", "C20"}
NPROC = 16


def _merge_result(res, r):
    info = res["info"]
    info["cases"] = info.get("cases", 0) + r.get("evaluations", 0)
    info["violations_recorded"] = info.get("violations_recorded", 0) + r.get("violation_count", 0)
    for k, v in r.get("calls", {}).items():
        info.setdefault("library_calls_observed", {})
        info["library_calls_observed"][k] = info["library_calls_observed"].get(k, 0) + v
    for v in r.get("violations", []):
        v = dict(v)
        v["features"] = dict(v.get("features", {}), instrumentation=res["name"])
        res["violations"].append(v)


def miri_stage(prop, tier, seed, env, say, verif, repo, target, bin, **kw):
    """Bounded subset of the history / view / accessor workloads under the Miri interpreter
    (undefined behaviour reached inside std or dependencies once an unchecked cast is wrong,
    invalid retagging of the &mut Vec handles, leaks).  16 single-threaded processes."""
    t0 = time.time()
    res = {"name": "miri", "info": {}, "violations": [], "inconclusive": None}
    menv = dict(env, CARGO_TARGET_DIR=os.path.join(target, "miri"), MIRIFLAGS="-Zmiri-disable-isolation")
    harness = os.path.join(verif, "harness")
    base = ["cargo", "+nightly", "miri", "run", "--offline", "--quiet", "--manifest-path", os.path.join(harness, "Cargo.toml"), "--"]
    try:
        w = subprocess.run(base + ["--version"], cwd=harness, env=menv, stdout=subprocess.PIPE, stderr=subprocess.PIPE, text=True, timeout=3600)
    except subprocess.TimeoutExpired:
        res["inconclusive"] = "building for Miri timed out"
        return res
    if w.returncode != 0:
        res["inconclusive"] = "Miri build/tool failure: %s" % w.stderr[-300:].replace("\n", " | ")
        return res
    procs = []
    for i in range(NPROC):
        out = os.path.join(target, "miri-%s-%d.json" % (prop, i))
        trace = os.path.join(target, "miri-%s-%d.trace" % (prop, i))
        for f in (out, trace):
            if os.path.exists(f):
                os.remove(f)
        cmd = base + [prop, "--tier", "tiny", "--seed", str(seed), "--threads", "1", "--shards", str(NPROC), "--only-shard", str(i), "--skip-self-test", "--out", out, "--trace", trace]
        procs.append((i, out, trace, subprocess.Popen(cmd, cwd=harness, env=menv, stdout=subprocess.PIPE, stderr=subprocess.PIPE, text=True)))
    for i, out, trace, p in procs:
        try:
            so, se = p.communicate(timeout=3 * 3600)
        except subprocess.TimeoutExpired:
            p.kill()
            res["inconclusive"] = "a Miri shard timed out"
            continue
        if p.returncode == 0 and os.path.exists(out):
            _merge_result(res, json.load(open(out)))
            os.remove(out)
        elif "Undefined Behavior" in se or "memory leaked" in se or "error: " in se and "unsupported operation" not in se:
            case = None
            try:
                case = json.load(open(trace))
            except Exception:
                pass
            first = [l for l in se.splitlines() if l.startswith("error")][:2]
            where = [l.strip() for l in se.splitlines() if "-->" in l][:4]
            res["violations"].append({"clause": "%s.miri" % prop, "features": {"instrumentation": "miri", "kind": "undefined-behaviour" if "Undefined Behavior" in se else "miri-error"},
                                      "case": case or {"mon": "?", "a": [], "n": []}, "detail": "Miri reports: %s ; at %s" % (" / ".join(first), " <- ".join(where))})
        else:
            res["inconclusive"] = "Miri shard %d failed without a UB report: %s" % (i, se[-300:].replace("\n", " | "))
        if os.path.exists(trace):
            os.remove(trace)
    res["info"]["wall_s"] = round(time.time() - t0, 1)
    res["info"]["processes"] = NPROC
    if res["info"].get("cases", 0) == 0 and not res["violations"] and not res["inconclusive"]:
        res["inconclusive"] = "Miri observed no case"
    return res


def miri_sampled_stage(prop, tier, seed, env, say, verif, repo, target, bin, **kw):
    """A uniform sample of the property's quick workload (drawn natively by the worker's
    --dump-sample mode: nothing is executed, every generated case of at most 1500 argument bytes is
    offered to one reservoir per sub-monitor) is replayed - library calls and oracles - under the
    Miri interpreter in 16 single-threaded processes.  Reports undefined behaviour, leaks, and any
    ordinary violation the oracles see on the sample."""
    t0 = time.time()
    res = {"name": "miri-sampled", "info": {}, "violations": [], "inconclusive": None}
    sample = os.path.join(target, "miri-sample-%s.json" % prop)
    if os.path.exists(sample):
        os.remove(sample)
    total = int(os.environ.get("VERIF_MIRI_SAMPLE", MIRI_SAMPLE_TOTAL.get(prop, MIRI_SAMPLE_DEFAULT)))
    p = subprocess.run([bin, prop, "--tier", "quick", "--seed", str(seed), "--dump-sample", str(total), "--dump-max-bytes", str(MIRI_SAMPLE_MAX_BYTES.get(prop, 1500)), "--out", sample],
                       cwd=verif, env=env, stdout=subprocess.PIPE, stderr=subprocess.PIPE, text=True)
    if p.returncode != 0 or not os.path.exists(sample):
        res["inconclusive"] = "sampling the workload failed (exit %s): %s" % (p.returncode, p.stderr[-200:].replace("\n", " | "))
        return res
    d = json.load(open(sample))
    by_mon = {}
    for c in d["cases"]:
        if c["mon"] in MIRI_SAMPLE_SKIP.get(prop, ()):
            continue
        by_mon.setdefault(c["mon"], []).append(c)
    quota = max(1, -(-total // max(1, len(by_mon))))
    cases = []
    for k in range(quota):
        for mon in sorted(by_mon):
            if k < len(by_mon[mon]):
                cases.append(by_mon[mon][k])
    # the replay shards take positions modulo 16: shuffle (deterministically) so that a sub-monitor count
    # dividing 16 does not pin each sub-monitor to a few shards
    import random
    random.Random(seed * 1000003 + len(cases)).shuffle(cases)
    json.dump({"cases": cases}, open(sample, "w"))
    res["info"]["workload_generated"] = d.get("generated")
    res["info"]["sampled_per_sub_monitor"] = {m: {"eligible": d["per_sub_monitor"].get(m, {}).get("eligible"), "replayed": min(quota, len(v))} for m, v in by_mon.items()}
    if not cases:
        res["inconclusive"] = "the sample is empty"
        return res
    menv = dict(env, CARGO_TARGET_DIR=os.path.join(target, "miri"), MIRIFLAGS="-Zmiri-disable-isolation")
    harness = os.path.join(verif, "harness")
    base = ["cargo", "+nightly", "miri", "run", "--offline", "--quiet", "--manifest-path", os.path.join(harness, "Cargo.toml"), "--"]
    try:
        w = subprocess.run(base + ["--version"], cwd=harness, env=menv, stdout=subprocess.PIPE, stderr=subprocess.PIPE, text=True, timeout=3600)
    except subprocess.TimeoutExpired:
        res["inconclusive"] = "building for Miri timed out"
        return res
    if w.returncode != 0:
        res["inconclusive"] = "Miri build/tool failure: %s" % w.stderr[-300:].replace("\n", " | ")
        return res
    procs = []
    for i in range(NPROC):
        out = os.path.join(target, "miris-%s-%d.json" % (prop, i))
        trace = os.path.join(target, "miris-%s-%d.trace" % (prop, i))
        for f in (out, trace):
            if os.path.exists(f):
                os.remove(f)
        cmd = base + [prop, "--tier", "tiny", "--seed", str(seed), "--threads", "1", "--shards", str(NPROC), "--only-shard", str(i), "--skip-self-test",
                      "--replay-list", sample, "--out", out, "--trace", trace]
        procs.append((i, out, trace, subprocess.Popen(cmd, cwd=harness, env=menv, stdout=subprocess.PIPE, stderr=subprocess.PIPE, text=True)))
    for i, out, trace, p in procs:
        try:
            so, se = p.communicate(timeout=3 * 3600)
        except subprocess.TimeoutExpired:
            p.kill()
            res["inconclusive"] = "a Miri shard timed out"
            continue
        if p.returncode == 0 and os.path.exists(out):
            _merge_result(res, json.load(open(out)))
            os.remove(out)
        elif "Undefined Behavior" in se or "memory leaked" in se or "error: " in se and "unsupported operation" not in se:
            case = None
            try:
                case = json.load(open(trace))
            except Exception:
                pass
            first = [l for l in se.splitlines() if l.startswith("error")][:2]
            where = [l.strip() for l in se.splitlines() if "-->" in l][:4]
            res["violations"].append({"clause": "%s.miri" % prop, "features": {"instrumentation": "miri", "kind": "undefined-behaviour" if "Undefined Behavior" in se else "miri-error"},
                                      "case": case or {"mon": "?", "a": [], "n": []}, "detail": "Miri reports: %s ; at %s" % (" / ".join(first), " <- ".join(where))})
        else:
            res["inconclusive"] = "Miri shard %d failed without a UB report: %s" % (i, se[-300:].replace("\n", " | "))
        if os.path.exists(trace):
            os.remove(trace)
    if os.path.exists(sample):
        os.remove(sample)
    res["info"]["wall_s"] = round(time.time() - t0, 1)
    res["info"]["processes"] = NPROC
    if res["info"].get("cases", 0) == 0 and not res["violations"] and not res["inconclusive"]:
        res["inconclusive"] = "Miri observed no case"
    return res


def asan_stage(prop, tier, seed, env, say, verif, repo, target, bin, **kw):
    """The quick workload of the history monitors under AddressSanitizer (heap overflow /
    use-after-free / leak backstop), built with the nightly toolchain."""
    t0 = time.time()
    res = {"name": "asan", "info": {}, "violations": [], "inconclusive": None}
    aenv = dict(env, CARGO_TARGET_DIR=os.path.join(target, "asan"), RUSTFLAGS="-Zsanitizer=address -Cforce-frame-pointers=yes")
    harness = os.path.join(verif, "harness")
    b = subprocess.run(["cargo", "+nightly", "build", "--release", "--offline", "--quiet", "--target", "x86_64-unknown-linux-gnu"], cwd=harness, env=aenv, stdout=subprocess.PIPE, stderr=subprocess.PIPE, text=True)
    exe = os.path.join(target, "asan", "x86_64-unknown-linux-gnu", "release", "iref-verif")
    if b.returncode != 0 or not os.path.exists(exe):
        res["inconclusive"] = "ASan build failed: %s" % b.stderr[-300:].replace("\n", " | ")
        return res
    out = os.path.join(target, "asan-%s.json" % prop)
    renv = dict(env, ASAN_OPTIONS="halt_on_error=1:detect_leaks=1:abort_on_error=0:symbolize=1")
    for attempt, extra in enumerate(([], ["--threads", "1", "--trace", os.path.join(target, "asan-%s.trace" % prop)])):
        if os.path.exists(out):
            os.remove(out)
        try:
            p = subprocess.run([exe, prop, "--tier", "quick", "--seed", str(seed), "--out", out] + extra, cwd=verif, env=renv, stdout=subprocess.PIPE, stderr=subprocess.PIPE, text=True, timeout=3 * 3600)
        except subprocess.TimeoutExpired:
            res["inconclusive"] = "the ASan run timed out"
            return res
        if p.returncode == 0 and os.path.exists(out):
            if attempt == 0:
                _merge_result(res, json.load(open(out)))
            else:
                res["inconclusive"] = "an AddressSanitizer report did not reproduce single-threaded"
            os.remove(out)
            break
        if "AddressSanitizer" in p.stderr or "LeakSanitizer" in p.stderr:
            if attempt == 0:
                continue  # re-run single-threaded with a trace to name the case
            case = None
            try:
                case = json.load(open(extra[-1]))
            except Exception:
                pass
            head = [l for l in p.stderr.splitlines() if "ERROR:" in l or "SUMMARY:" in l][:2]
            res["violations"].append({"clause": "%s.asan" % prop, "features": {"instrumentation": "asan"}, "case": case or {"mon": "?", "a": [], "n": []}, "detail": "AddressSanitizer: %s" % " / ".join(head)})
            break
        res["inconclusive"] = "the ASan binary failed without a sanitizer report (exit %s): %s" % (p.returncode, p.stderr[-200:].replace("\n", " | "))
        break
    res["info"]["wall_s"] = round(time.time() - t0, 1)
    return res


def c01_config_b(prop, tier, seed, env, say, verif, repo, target, bin, **kw):
    """Configuration B of C01: a scratch copy of the working tree with the automata caches
    removed, so that the derive recompiles every automaton from grammar.abnf + entry_point;
    exposes a grammar or entry-point edit that a stale-but-hash-valid cache masks."""
    import tempfile
    t0 = time.time()
    res = {"name": "c01-config-b", "info": {}, "violations": [], "inconclusive": None}
    scratch = tempfile.mkdtemp(prefix="iref-verif-b-")
    try:
        srepo = os.path.join(scratch, "repo")
        shutil.copytree(repo, srepo, ignore=shutil.ignore_patterns("target", ".git"))
        adir = os.path.join(srepo, "crates", "core", "automata")
        committed = {}
        for root, _d, names in os.walk(adir):
            for n in names:
                f = os.path.join(root, n)
                committed[os.path.relpath(f, adir)] = open(f, "rb").read()
                os.remove(f)
        sh = os.path.join(scratch, "harness")
        shutil.copytree(os.path.join(verif, "harness"), sh, ignore=shutil.ignore_patterns("target"))
        ct = open(os.path.join(sh, "Cargo.toml")).read().replace('path = "/repo"', 'path = "%s"' % srepo)
        open(os.path.join(sh, "Cargo.toml"), "w").write(ct)
        benv = dict(env, CARGO_TARGET_DIR=os.path.join(scratch, "target"))
        b = subprocess.run(["cargo", "build", "--release", "--offline", "--quiet"], cwd=sh, env=benv, stdout=subprocess.PIPE, stderr=subprocess.PIPE, text=True)
        exe = os.path.join(scratch, "target", "release", "iref-verif")
        if b.returncode != 0 or not os.path.exists(exe):
            res["inconclusive"] = "configuration B does not build: %s" % b.stderr[-300:].replace("\n", " | ")
            return res
        differing = []
        for rel, data in committed.items():
            f = os.path.join(adir, rel)
            if not os.path.exists(f) or open(f, "rb").read() != data:
                differing.append(rel)
        res["info"]["regenerated_caches_differing_from_committed"] = differing
        out = os.path.join(scratch, "result.json")
        p = subprocess.run([exe, "C01", "--tier", "thorough" if differing else "quick", "--seed", str(seed), "--out", out], cwd=verif, env=env, stdout=subprocess.PIPE, stderr=subprocess.PIPE, text=True)
        if p.returncode != 0 or not os.path.exists(out):
            res["inconclusive"] = "configuration B worker failed: %s" % (p.stdout + p.stderr)[-300:]
            return res
        r = json.load(open(out))
        _merge_result(res, r)
        for v in res["violations"]:
            v["features"]["configuration"] = "B (automata recompiled from grammar.abnf)"
            v["detail"] = "[configuration B: caches removed, automata recompiled from the grammar] " + v["detail"]
    finally:
        shutil.rmtree(scratch, ignore_errors=True)
    res["info"]["wall_s"] = round(time.time() - t0, 1)
    return res


# --------------------------------------------------------------------------- C17

def _cargo_json(cmd, cwd, env, timeout):
    p = subprocess.run(cmd, cwd=cwd, env=env, stdout=subprocess.PIPE, stderr=subprocess.PIPE, text=True, timeout=timeout)
    msgs = []
    # NB: str.splitlines() also splits on U+2028/U+2029/U+0085..., which rustc happily prints inside
    # its JSON diagnostics when a literal contains them: split on "\n" only
    for line in p.stdout.split("\n"):
        line = line.strip(" \r\t")
        if not line.startswith("{"):
            continue
        try:
            msgs.append(json.loads(line))
        except ValueError:
            pass
    return p, msgs


def _error_lines(msgs, file_suffix):
    """Lines (1-based) of `file_suffix` on which rustc reports an error, with the message."""
    out = {}
    other = []
    for m in msgs:
        if m.get("reason") != "compiler-message":
            continue
        msg = m.get("message", {})
        if msg.get("level") != "error":
            continue
        text = msg.get("message", "")
        if text.startswith("aborting due to") or text.startswith("could not compile"):
            continue
        lines = set()

        def walk(span):
            if span is None:
                return
            if span.get("file_name", "").endswith(file_suffix):
                lines.add(span["line_start"])
            exp = span.get("expansion")
            if exp:
                walk(exp.get("span"))
        for sp in msg.get("spans", []):
            if sp.get("is_primary", False):
                walk(sp)
        if not lines:
            for sp in msg.get("spans", []):
                walk(sp)
        if not lines:
            mm = re.search(r"--> [^\n]*%s:(\d+):" % re.escape(file_suffix), msg.get("rendered", "") or "")
            if mm:
                lines.add(int(mm.group(1)))
        if lines:
            for ln in lines:
                out.setdefault(ln, []).append(text)
        else:
            other.append(text)
    return out, other


def c17(prop, tier, seed, env, say, verif, repo, target, bin, **kw):
    t0 = time.time()
    work = os.path.join(verif, "work", "c17")
    shutil.rmtree(work, ignore_errors=True)
    os.makedirs(work, exist_ok=True)
    res = {"name": "c17-compiler", "info": {}, "violations": [], "inconclusive": None}
    p = subprocess.run([bin, "C17", "--tier", tier, "--seed", str(seed), "--out", work], env=dict(env, IREF_REPO=repo), stdout=subprocess.PIPE, stderr=subprocess.PIPE, text=True)
    if p.returncode != 0:
        res["inconclusive"] = "generator failed: %s" % (p.stdout + p.stderr)[-300:]
        return res
    exp = json.load(open(os.path.join(work, "expected.json")))
    lits = exp["literals"]
    valid = [l for l in lits if l["set"] == "valid"]
    invalid = [l for l in lits if l["set"] == "invalid"]
    cenv = dict(env, CARGO_TARGET_DIR=os.path.join(target, "c17"))
    for d in ("valid", "invalid"):
        lock = os.path.join(repo, "Cargo.lock")
        if os.path.exists(lock):
            shutil.copy(lock, os.path.join(work, d, "Cargo.lock"))
    viol = res["violations"]

    def v(clause, lit, detail, feats=None):
        f = {"macro": lit.get("macro", "?"), "spelling": lit.get("spelling_kind", "?")}
        f.update(feats or {})
        viol.append({"clause": clause, "features": f, "detail": detail,
                     "case": {"mon": "literal", "a": [{"s": lit.get("macro", "")}, {"s": lit.get("text", "")}, {"s": lit.get("spelling", "")}], "n": []}})

    # ---- valid set: must compile, then every constant must equal the run-time value
    vdir = os.path.join(work, "valid")
    try:
        pb, msgs = _cargo_json(["cargo", "build", "--offline", "--message-format=json"], vdir, cenv, 3600)
    except subprocess.TimeoutExpired:
        res["inconclusive"] = "compiling the valid set timed out"
        return res
    src_lines = open(os.path.join(vdir, "src", "main.rs")).read().split("\n")
    checked = set()
    if pb.returncode != 0:
        errs, other = _error_lines(msgs, "src/main.rs")
        mapped = 0
        for ln in sorted(errs):
            lit_id = None
            for k in (ln, ln - 1):
                if k >= 1:
                    mm = re.match(r"const V(\d+):", src_lines[k - 1])
                    if mm and (k == ln or src_lines[k - 1].endswith("\\")):
                        lit_id = int(mm.group(1))
                        break
            if lit_id is not None and lit_id < len(valid):
                mapped += 1
                v("C17.valid-rejected", valid[lit_id], "the literal %r (valid for %s! by the RFC model) is a compile error: %s" % (valid[lit_id]["text"], valid[lit_id]["macro"], "; ".join(errs[ln])[:200]))
        if mapped == 0:
            res["inconclusive"] = "the valid-set crate does not compile, and no error maps to a literal: %s" % ("; ".join(other) or pb.stderr[-300:])[:400]
            return res
    else:
        exe = os.path.join(cenv["CARGO_TARGET_DIR"], "debug", "c17-valid")
        try:
            pr = subprocess.run([exe], stdout=subprocess.PIPE, stderr=subprocess.PIPE, text=True, timeout=600)
        except subprocess.TimeoutExpired:
            res["inconclusive"] = "the valid-set binary timed out"
            return res
        for line in pr.stdout.split("\n"):
            parts = line.split(" ", 2)
            if parts[0] == "CHECKED":
                checked.add(int(parts[1]))
            elif parts[0] == "MISMATCH":
                lit = valid[int(parts[1])]
                v("C17.value", lit, "the constant built by %s! from %r differs from the run-time value: %s" % (lit["macro"], lit["text"], parts[2] if len(parts) > 2 else ""))
        if pr.returncode != 0:
            missing = [i for i in range(len(valid)) if i not in checked]
            lit = valid[missing[0]] if missing else {"macro": "?", "text": ""}
            v("C17.value", lit, "the valid-set binary failed at run time (exit %s) at or before literal %r: %s" % (pr.returncode, lit.get("text"), pr.stderr[-200:]), {"runtime": "failure"})
        elif len(checked) != len(valid):
            res["inconclusive"] = "only %d of %d constants were checked" % (len(checked), len(valid))
    # ---- invalid set: an error on exactly the lines of the invalid literals
    idir = os.path.join(work, "invalid")
    try:
        pi, msgs = _cargo_json(["cargo", "build", "--offline", "--message-format=json"], idir, cenv, 3600)
    except subprocess.TimeoutExpired:
        res["inconclusive"] = "compiling the invalid set timed out"
        return res
    errs, other = _error_lines(msgs, "src/lib.rs")
    by_line = {l["line"]: l for l in invalid}
    dep_failed = any(m.get("reason") == "compiler-message" and m.get("message", {}).get("level") == "error" and not m.get("target", {}).get("name", "").startswith("c17") for m in msgs)
    if dep_failed or (pi.returncode != 0 and not errs and invalid):
        res["inconclusive"] = "the invalid-set crate failed to build for another reason: %s" % ("; ".join(other) or pi.stderr[-300:])[:400]
        return res
    for ln, lit in sorted(by_line.items()):
        if ln not in errs:
            v("C17.invalid-accepted", lit, "the literal %r (invalid for %s! by the RFC model) did not produce a compile error" % (lit["text"], lit["macro"]))
    for ln in sorted(errs):
        if ln not in by_line:
            v("C17.valid-rejected", {"macro": "uri", "text": "s:control" if ln == exp["control_line"] else "?", "spelling_kind": "plain"}, "unexpected compile error on line %d of the invalid-set crate: %s" % (ln, "; ".join(errs[ln])[:200]))
    n = len(lits)
    distinct = len({(l["macro"], l["text"]) for l in lits})
    kinds = {}
    for l in lits:
        kinds["spelling:%s" % l["spelling_kind"]] = kinds.get("spelling:%s" % l["spelling_kind"], 0) + 1
        kinds["%s:%s" % (l["set"], l["macro"])] = kinds.get("%s:%s" % (l["set"], l["macro"]), 0) + 1
    samples = [{"macro": l["macro"], "set": l["set"], "literal_source": l["spelling"], "text": l["text"]} for l in (valid[:3] + invalid[:3] + valid[-2:] + invalid[-2:])]
    res["info"] = {"valid_literals": len(valid), "invalid_literals": len(invalid), "constants_checked_at_run_time": len(checked), "compile_errors_observed_on_invalid_lines": len([l for l in by_line if l in errs]), "wall_s": round(time.time() - t0, 1)}
    mandatory = ["valid:uri", "valid:uri_ref", "valid:iri", "valid:iri_ref", "invalid:uri", "invalid:uri_ref", "invalid:iri", "invalid:iri_ref", "spelling:raw", "spelling:unicode-escapes", "spelling:hex-escapes", "spelling:plain", "spelling:line-continuation", "spelling:unicode-escape-variants", "spelling:mixed-escapes", "spelling:hex-escapes-upper", "spelling:raw-no-hash", "spelling:raw-two-hashes"]
    res["result"] = {
        "evaluations": n, "distinct_nontrivial": distinct, "rule": exp["rule"], "samples": samples, "strata": kinds, "calls": {"rustc (valid set)": 1, "rustc (invalid set)": 1},
        "extra": res["info"], "sets": {}, "panics_caught": 0, "violation_count": len(viol), "distinct_saturated": False,
        "empty_mandatory_strata": [m for m in mandatory if kinds.get(m, 0) == 0], "violations": [], "wall_s": round(time.time() - t0, 1),
    }
    return res


def replay(prop, path, env, say, verif, repo, target):
    """Re-execute one recorded C17 case: compile a crate with that single literal."""
    rec = json.load(open(path))
    case = rec.get("case", {})
    args = [a.get("s", "") for a in case.get("a", [])]
    if len(args) < 3:
        say("INCONCLUSIVE property=%s reason=bad_replay_file" % prop)
        return 3
    mac, text, spelling = args[0], args[1], args[2]
    ty = {"uri": "Uri", "uri_ref": "UriRef", "iri": "Iri", "iri_ref": "IriRef"}.get(mac, "Uri")
    work = os.path.join(verif, "work", "c17-replay")
    shutil.rmtree(work, ignore_errors=True)
    os.makedirs(os.path.join(work, "src"))
    open(os.path.join(work, "Cargo.toml"), "w").write('[package]\nname = "c17-replay"\nversion = "0.0.0"\nedition = "2021"\n\n[dependencies]\niref = { path = "%s", features = ["macros"] }\n\n[workspace]\n' % repo)
    lock = os.path.join(repo, "Cargo.lock")
    if os.path.exists(lock):
        shutil.copy(lock, os.path.join(work, "Cargo.lock"))
    bytes_ = ",".join(str(b) for b in text.encode())
    open(os.path.join(work, "src", "main.rs"), "w").write(
        "use iref::%s;\nconst V: &'static %s = iref::%s!(%s);\nfn main() {\n    let b: &[u8] = &[%s];\n    let ok = V.as_bytes() == b && match <%s>::new(b) { Ok(r) => r == V && r.parts() == V.parts(), Err(_) => false };\n    println!(\"{}\", if ok { \"SAME\" } else { \"DIFFERENT\" });\n}\n" % (ty, ty, mac, spelling, bytes_, ty))
    cenv = dict(env, CARGO_TARGET_DIR=os.path.join(target, "c17"))
    p = subprocess.run(["cargo", "run", "--offline", "--quiet"], cwd=work, env=cenv, stdout=subprocess.PIPE, stderr=subprocess.PIPE, text=True)
    compiled = p.returncode == 0 or "SAME" in p.stdout or "DIFFERENT" in p.stdout
    clause = rec.get("clause", "")
    violated = (clause == "C17.invalid-accepted" and compiled) or (clause == "C17.valid-rejected" and not compiled) or (clause == "C17.value" and (not compiled or "DIFFERENT" in p.stdout))
    say("replay: literal %r through %s!: %s%s" % (text, mac, "compiles" if compiled else "compile error", (", value " + p.stdout.strip()) if compiled else ""))
    if violated:
        say("VIOLATION property=%s replay=%s" % (prop, path))
        return 1
    say("replayed case: no violation")
    return 0
