#!/bin/bash
# usage: seeded_batch.sh <worktree-name> <k> <seed-id> <property>
# verify candidate k of /tmp/wt/<worktree-name> in the scratch worktree, keep it as /verif/seeded/<seed-id>, run all quick checks against it
set -u
wt=/tmp/wt/$1; k=$2; id=$3; prop=$4
src=$wt/SEEDED/$k
cd /verif
python3 lib/seeded.py verify $wt $src > /tmp/wt/verify-$id.json 2>&1
if ! grep -q '"ok": true' /tmp/wt/verify-$id.json; then echo "$id: NOT CONFIRMED"; tail -20 /tmp/wt/verify-$id.json; exit 1; fi
mkdir -p seeded/$id
cp $src/patch.diff $src/demo.rs seeded/$id/
python3 - "$src/meta.json" "seeded/$id/meta.json" "$prop" "/tmp/wt/verify-$id.json" <<'PY'
import json,sys
try: m=json.load(open(sys.argv[1]))
except Exception as e: m={"summary":"(agent meta unreadable: %s)"%e}
v=open(sys.argv[4]).read()
j=json.loads(v[v.index('{'):])
out={"breaks_property":sys.argv[3],"summary":m.get("summary"),"needs_to_manifest":m.get("needs_to_manifest"),"files_touched":m.get("files_touched"),
 "confirmed_in_scratch_worktree":{"patch_applies":j["applies"],"existing_suite_green_with_patch (cargo test --workspace --offline)":j["suite_green_with_patch"],"demo_fails_with_patch":j["demo_fails_with_patch"],"demo_passes_without_patch":j["demo_passes_without_patch"],"demo_output_with_patch":j.get("demo_output_with_patch","")[:600]},
 "author":"independent sub-agent given only the property text and a scratch worktree"}
json.dump(out,open(sys.argv[2],"w"),indent=1)
PY
echo "== $id ($prop)"
python3 lib/seeded.py run /verif/seeded/$id 2>&1 | tail -22
