#!/usr/bin/env python3
"""Regenerates /verif/MANIFEST.json from the table below (kept in one place so
that the manifest stays valid and consistent while checks are added)."""
import json, os, sys

sys.path.insert(0, os.path.dirname(os.path.abspath(__file__)))
import stages

VERIF = os.path.dirname(os.path.dirname(os.path.abspath(__file__)))

# id -> (technique, level text, level note, design ref)
CLAIMED = {
 "C01": ("runtime differential monitor: real parsers vs RFC ABNF recogniser over exhaustive small-scope + swept + random inputs",
         "Every construction route of all 20 validated types is executed on millions of generated inputs (exhaustive strings over class-representative alphabets, every Unicode scalar value and byte in context templates, IP-literal shapes, valid references and their mutants, ill-formed UTF-8) and its verdict, kept text and error payload are compared with a hand-written RFC 3986/3987 recogniser. Held on the executions observed; exhaustive only up to the stated string lengths.",
         "Trusted: the RFC recogniser in harness/src/abnf.rs (anchored by RFC examples at start-up); the committed automata caches are what the build uses (thorough adds a cache-free rebuild).",
         "DESIGN.md 5 C01"),
 "C02": ("runtime differential monitor: accessors vs Appendix-B splitter over exhaustive small-scope + random valid references",
         "All component accessors and parts() of Uri/UriRef/Iri/IriRef and their owned forms are executed on every valid reference up to a length bound over an 8-letter alphabet and on grammar-derived random references, and compared (presence and bytes) with an RFC 3986 Appendix-B splitter; every returned component is re-validated by the model and by the library's own checked constructor; 5.3 recomposition must reproduce the text.",
         "Trusted: the Appendix-B splitter and recogniser in the harness. Exhaustive only up to the stated length.",
         "DESIGN.md 5 C02"),
 "C03": ("runtime differential monitor: authority accessors vs section 3.2 splitter over a full product of authority shapes",
         "user_info/host/port/parts are executed on the full product of user-info x host-kind (incl. every structured IPv6/IPvFuture shape) x port shapes, on all valid authorities up to a length bound over {a : / @ [ ] 1}, and on random authorities - stand-alone, owned and embedded in references - and compared with the RFC 3.2 split.",
         "Trusted: the section 3.2 splitter in the harness.",
         "DESIGN.md 5 C03"),
 "C07": ("runtime monitor: every == impl under catch_unwind vs model equivalence on generated equal / near-equal pairs and triples",
         "All same-type and cross-type equality impls are run on pairs built to be equal under the documented equivalence (respellings) or to differ by one feature, including escapes whose octets are not UTF-8, and compared in both directions with a model of the documented equivalence; reflexivity, symmetry and transitivity are checked on the library's own answers; pairs include fully encoded hosts, sentinel octets and shifted delimiter/escape boundaries, single components of up to 4 KiB differing only at the end, long shared path prefixes, the product of authority shapes, and values that alias one buffer; != is probed next to ==.",
         "Trusted: the model equivalence (harness/src/model.rs eq_*).",
         "DESIGN.md 5 C07"),
 "C08": ("runtime monitor: Eq/Ord/Hash laws and real HashSet/BTreeSet lookups through every Borrow view",
         "For pairs and batches of related values the laws eq=>hash, cmp==Equal<=>eq, antisymmetry, partial_cmp==Some(cmp), borrowed==owned, and the operators < <= > >= != and max/min agreeing with cmp/==, are checked with a fixed hasher that separates consecutive write calls (a Hash impl whose call sequence depends on the spelling is seen) and DefaultHasher; batches are sorted with the library's cmp and every i<j pair re-checked; owned values are inserted into hashed and ordered collections and looked up through each Borrow implementation between the library's own types.",
         "Trusted: std collections. Borrow<str>/Borrow<[u8]> and DataUrlBuf are outside the property and not tested.",
         "DESIGN.md 5 C08"),
 "C12": ("runtime monitor: segment iterators driven through all front/back interleavings vs '/'-split model",
         "segments() is driven by every 2^(n+2) interleaving of next/next_back for all paths over a 5-segment alphabet up to a segment bound (random masks for long random paths), always two steps past the end, and by adaptor programs (nth/nth_back incl. indices near usize::MAX, skip, step_by, folds, finds, take, peekable, partition ...) checked against a deque model; the derived queries are compared with values computed from the '/'-split sequence.",
         "Trusted: the '/'-split model.",
         "DESIGN.md 5 C12"),
 "C19": ("runtime monitor: percent-decoded views under catch_unwind vs octet model over all %XX patterns",
         "as_pct_str/Deref, bytes(), chars(), len(), decode(), == str and into_pct_string are executed for every component type on all single escapes, all pairs of escapes (thorough), multi-byte characters split over escapes, truncated/overlong/surrogate/out-of-range sequences mixed with literal non-ASCII, stand-alone and extracted from references, and compared with a byte-level decoder and std's UTF-8 validation.",
         "Trusted: std::str::from_utf8. Known findings (pct-str behaviour) are listed in known_findings.json.",
         "DESIGN.md 5 C19"),
 "C20": ("runtime instrumentation: counting global allocator around each call + pointer-range checks of returned slices",
         "A counting #[global_allocator] (thread-local counter) brackets each single parse and accessor call on generated inputs incl. 64 KiB inputs, > 16 segments and > 512-byte paths; the allocation delta must be 0, the parsed value must occupy exactly the input, every returned slice must lie inside it (or be a documented constant) and components must be ordered and disjoint.",
         "Trusted: the allocator shim counts every alloc/realloc on the calling thread.",
         "DESIGN.md 5 C20"),
 "C05": ("runtime monitor: Appendix-B split before/after each setter call (target, frame, permitted disambiguations)",
         "Each of the five setters (incl. removal) of the four owned types is executed on every (state shape x argument class) stratum and on random triples with long tails; the text is split before and after by the model: the target must read back as requested, every other component must be byte-identical, and the path may differ only by the three documented disambiguations evaluated on the new state; the library's own accessors are re-checked on the result.",
         "Trusted: Appendix-B splitter; the shield rule as stated in the property.",
         "DESIGN.md 5 C05"),
 "C06": ("runtime differential monitor: resolved/resolve/into_resolved vs a literal RFC 3986 5.2 implementation",
         "The three resolution entry points of both families are executed on a structured product of bases and references covering all five 5.2.2 branches x dot-ending/leading-empty/'..'-heavy paths and on random pairs, and compared with a literal implementation of 5.2.2-5.2.4 (+ Errata 4547) and 5.3 that is validated against the RFC's own examples at start-up; ambiguous targets are checked modulo the shield rule; entry points and families must agree; the base must be unchanged.",
         "Trusted: the model resolver (checked against RFC 3986 5.4 at start-up). One known finding (pinned by an upstream unit test) is keyed in known_findings.json.",
         "DESIGN.md 5 C06"),
 "C09": ("runtime differential monitor: normalisation entry points vs left-to-right stack model, stand-alone and embedded",
         "normalized_segments(), normalized(), PathBuf::normalize() and path_mut().normalize() (inside every compatible enclosing reference shape, RiRefBuf and RiBuf) are executed on all paths over a 7-segment alphabet up to a segment bound and on random long paths crossing the inline buffers, and compared with the stack model and its 5.2.4 rendering modulo the permitted shield; idempotence, absoluteness and the frame are checked.",
         "Trusted: the stack model (cross-checked against the literal 5.2.4 algorithm on absolute paths at start-up).",
         "DESIGN.md 5 C09"),
 "C10": ("runtime monitor: operation histories through one PathMut handle vs list model, with three-way differential (one handle / fresh handle / stand-alone)",
         "Exhaustive short and random long histories of push/pop/clear/symbolic_push/symbolic_append/normalize are applied through one handle (Deref view checked after every call), through a fresh handle per call (frame and validity after every call), on the stand-alone PathBuf and on RiBuf, in every enclosing shape; segment sequences are compared with a list model modulo the permitted '.' shield and with each other; distinct abstract states and transitions are counted.",
         "Trusted: the list model; documented don't-care zones in DESIGN.md section 3.",
         "DESIGN.md 5 C10"),
 "C11": ("runtime monitor: authority-edit histories through one AuthorityMut handle vs record model and fresh-handle differential",
         "Exhaustive short and random long histories of set_userinfo/set_host/set_port (incl. removal, longer/shorter/IP-literal/non-ASCII values) are applied through one handle with the handle's view checked after every call, through a fresh handle per call, and on RiBuf, for every authority shape and following component; the enclosing text must differ from the original only in the authority.",
         "Trusted: the (userinfo?, host, port?) record model.",
         "DESIGN.md 5 C11"),
 "C04": ("runtime invariant monitor: UTF-8 + re-parse + accessor sweep after every call of exhaustive/random mutation histories (native; Miri and ASan stages in thorough)",
         "Exhaustive short and random long histories over ~47 (operation x argument-class) letters - all setters, authority-handle edits, path edits, in-place resolution - are applied to RiRefBuf, RiBuf and PathBuf of both families obtained by every route (parsed, Default, from_scheme, cloned, converted); after EACH call the bytes must be UTF-8, valid for the same type by the RFC model and by the library's checked constructor, and every read accessor plus tripwire consumers must run without panicking. Distinct abstract states and transitions are counted.",
         "Trusted: RFC recogniser. Native monitors see library-level invariants; thorough adds Miri/ASan runs of a subset for UB that the invariants do not anticipate.",
         "DESIGN.md 5 C04"),
 "C13": ("runtime monitor: every conversion between the eight types vs RFC model, plus URI/IRI family lock-step differential on ASCII inputs",
         "Every as_*/into_*/try_into_*/TryFrom/From/AsRef conversion is executed on valid values of both families and on mutants; success must coincide with the model's verdict for the target type, keep the text, and failures must hand the original back. On ASCII inputs the two families are run in lock-step (components, authority parts, segments, normalisation, ==, cmp, hash, base, suffix, relative_to, resolution, random edit histories) and must produce identical observations.",
         "Trusted: RFC recogniser.",
         "DESIGN.md 5 C13"),
 "C14": ("runtime monitor: every textual route in/out incl. serde_json round trips vs RFC model, all 20 types",
         "For valid values and mutants (about half invalid) of all 20 types: Display, Debug, as_str/as_bytes, into_string/into_bytes, to_owned, Clone, AsRef, From and serde_json::to_string must give exactly the parsed text; == with str/&str/String/[u8] must be plain text equality (also probed with an equivalent-but-different spelling); FromStr, TryFrom, from_vec and serde_json::{from_str, from_slice} into owned and borrowed forms (plain and fully \\u-escaped JSON, non-strings, ill-formed UTF-8) must accept exactly what the model accepts.",
         "Trusted: RFC recogniser; serde_json.",
         "DESIGN.md 5 C14"),
 "C15": ("runtime monitor: relative_to then resolved round trip, judged by model equivalence and the library's ==",
         "a.relative_to(b) is executed on a structured product and on random pairs of full URIs/IRIs (same/different scheme and authority, every prefix relation, trailing slashes, dot/empty segments, queries/fragments); the result must be a valid reference of the family and resolve against b to a value equal to a both by the model equivalence and by the library's ==; no call may panic.",
         "Trusted: model equivalence and resolver. Two known findings (inherent conflict with C07's equivalence for unspellable sequences; consequence of the C06 finding) are keyed in known_findings.json.",
         "DESIGN.md 5 C15"),
 "C16": ("runtime differential monitor: suffix/base vs model on normalized segment sequences and Appendix-B path",
         "Path/RiRef/Ri::suffix is executed on (value, prefix) pairs built by cutting and perturbing paths, schemes and authorities and compared with a model (existence, remaining segments modulo shield, prefix++suffix == value, query/fragment pointer-identical); base() is compared with the text up to the last '/' of the Appendix-B path and re-validated.",
         "Trusted: model of normalized sequences and Appendix-B splitter.",
         "DESIGN.md 5 C16"),
 "C18": ("runtime differential monitor: borrowed (re-scanning) vs owned (offset-storing) data URL views, reassembly, independent base64 codec",
         "All strings up to a symbol bound after 'data:' plus structured and random cases are given to every borrowed and owned constructor (which must agree); accepted values must be valid URIs of the data shape (checked by the model before any scanning accessor runs), borrowed and owned parts/media_type/is_base_64_encoded/encoded_data/decoded_data must be identical and reassemble the text, and decoded data is compared with an independent RFC 4648 codec.",
         "Trusted: harness base64 codec (RFC 4648 vectors at start-up).",
         "DESIGN.md 5 C18"),
 "C17": ("runtime observation of the compiler: generated crates with one macro invocation per literal; constants compared with the run-time parser, compile errors compared line by line with the RFC model",
         "For each of uri!/uri_ref!/iri!/iri_ref!, hundreds (thousands in thorough) of literals - valid values, near-miss mutants, non-ASCII, characters needing Rust escapes - are written in random Rust spellings into two generated crates depending on /repo with the macros feature: the valid-set crate must compile and its binary must find every constant equal (bytes, parts, ==) to the value parsed at run time; for the invalid-set crate rustc must report an error on exactly the lines of the invalid literals.",
         "Trusted: the RFC recogniser (to split valid from invalid), rustc's JSON diagnostics. Observes this toolchain only.",
         "DESIGN.md 5 C17"),
}

PENDING = {}

def main():
    props = [json.loads(l) for l in open(os.path.join(VERIF, "properties.jsonl"))]
    checks = []
    na = []
    for p in props:
        pid = p["id"]
        if pid in CLAIMED:
            tech, text, note, ref = CLAIMED[pid]
            san = []
            if pid in stages.MIRI_PROPS:
                san.append("a workload sized for the interpreter under Miri (16 processes)")
            if pid in stages.MIRI_SAMPLED_PROPS:
                san.append("a uniform sample of the quick workload, stratified by sub-monitor (%d cases), replayed with its oracles under Miri" % stages.MIRI_SAMPLE_TOTAL.get(pid, stages.MIRI_SAMPLE_DEFAULT))
            if pid in stages.ASAN_PROPS:
                san.append("the whole quick workload under AddressSanitizer with leak detection")
            if san:
                note = note + " Thorough tier adds: " + "; ".join(san) + " - undefined behaviour, leaks and oracle violations seen there are violations, tool failures are inconclusive (DESIGN.md 11.6)."
            checks.append({
                "property_id": pid,
                "quick_cmd": "./check %s quick" % pid,
                "thorough_cmd": "./check %s thorough" % pid,
                "evidence_file": "/verif/evidence/%s.json" % pid,
                "replay_cmd_template": "./check %s --replay {path}" % pid,
                "engine": "iref-verif",
                "level_claimed": {"category": "exploration", "text": text, "design_ref": ref},
                "level_note": note,
                "technique": tech,
            })
        else:
            na.append({"property_id": pid, "reason": PENDING.get(pid, "monitor not built yet (work in progress; see DESIGN.md section 5 for the planned runtime monitor)")})
    m = {
        "version": 1,
        "setup_cmd": "./check --build",
        "hooks": {
            "guard": "iref_verif",
            "enable": "no hooks are needed: every property is observable at the public API; the harness crate /verif/harness depends on /repo by path (features serde,data) and is rebuilt by ./check from /repo's current working tree; the cfg name iref_verif is reserved and unused",
            "baseline_off_cmd": "cd /repo && cargo test --workspace --no-fail-fast --offline",
            "source_commits": [],
            "add_only": True,
        },
        "engines": [
            {"name": "iref-verif", "path": "/verif/harness", "serves_properties": sorted(CLAIMED), "kind_free_text": "Rust worker binary linking the real iref crates: generators, reference models (RFC recogniser, Appendix-B splitter, 5.2 resolver, list/record models of the editors), per-call monitors under catch_unwind, counting global allocator; driven and post-processed by /verif/check (known-finding matching, replay files, evidence)"},
        ],
        "checks": checks,
        "notes": "Technique family: runtime monitoring and sanitizers. Verdicts are three-valued: exit 0 held on what was observed, exit 1 VIOLATION (with replay file), exit 3 INCONCLUSIVE. Known findings: /verif/known_findings.json.",
        "not_applicable": na,
    }
    json.dump(m, open(os.path.join(VERIF, "MANIFEST.json"), "w"), indent=1)

if __name__ == "__main__":
    main()
