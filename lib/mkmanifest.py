#!/usr/bin/env python3
"""Regenerates /verif/MANIFEST.json from the table below (kept in one place so
that the manifest stays valid and consistent while checks are added)."""
import json, os

VERIF = os.path.dirname(os.path.dirname(os.path.abspath(__file__)))

# id -> (technique, level text, level note, design ref)
CLAIMED = {
 "C01": ("runtime differential monitor: real parsers vs RFC ABNF recogniser over exhaustive small-scope + swept + random inputs",
         "Every construction route of all 20 validated types is executed on millions of generated inputs (exhaustive strings over class-representative alphabets, every Unicode scalar value and byte in context templates, IP-literal shapes, valid references and their mutants, ill-formed UTF-8) and its verdict, kept text and error payload are compared with a hand-written RFC 3986/3987 recogniser. Held on the executions observed; exhaustive only up to the stated string lengths.",
         "Trusted: the RFC recogniser in harness/src/abnf.rs (anchored by RFC examples at start-up); the committed automata caches are what the build uses (thorough adds a cache-free rebuild).",
         "DESIGN.md 5 C01"),
}

PENDING = {}

def main():
    props = [json.loads(l) for l in open(os.path.join(VERIF, "properties.jsonl"))]
    checks = []
    na = []
    for p in props:
        pid = p["id"]
        if pid in CLAIMED:
            tech, text, note, ref = CLAIMED[pid]
            checks.append({
                "property_id": pid,
                "quick_cmd": "./check %s quick" % pid,
                "thorough_cmd": "./check %s thorough" % pid,
                "evidence_file": "/verif/evidence/%s.json" % pid,
                "replay_cmd_template": "./check %s --replay {path}" % pid,
                "engine": "iref-verif",
                "level_claimed": {"category": "exploration", "text": text, "design_ref": ref},
                "level_note": note,
                "technique": tech,
            })
        else:
            na.append({"property_id": pid, "reason": PENDING.get(pid, "monitor not built yet (work in progress; see DESIGN.md section 5 for the planned runtime monitor)")})
    m = {
        "version": 1,
        "setup_cmd": "./check --build",
        "hooks": {
            "guard": "iref_verif",
            "enable": "no hooks are needed: every property is observable at the public API; the harness crate /verif/harness depends on /repo by path (features serde,data) and is rebuilt by ./check from /repo's current working tree; the cfg name iref_verif is reserved and unused",
            "baseline_off_cmd": "cd /repo && cargo test --workspace --no-fail-fast --offline",
            "source_commits": [],
            "add_only": True,
        },
        "engines": [
            {"name": "iref-verif", "path": "/verif/harness", "serves_properties": sorted(CLAIMED), "kind_free_text": "Rust worker binary linking the real iref crates: generators, reference models (RFC recogniser, Appendix-B splitter, 5.2 resolver, list/record models of the editors), per-call monitors under catch_unwind, counting global allocator; driven and post-processed by /verif/check (known-finding matching, replay files, evidence)"},
        ],
        "checks": checks,
        "notes": "Technique family: runtime monitoring and sanitizers. Verdicts are three-valued: exit 0 held on what was observed, exit 1 VIOLATION (with replay file), exit 3 INCONCLUSIVE. Known findings: /verif/known_findings.json.",
        "not_applicable": na,
    }
    json.dump(m, open(os.path.join(VERIF, "MANIFEST.json"), "w"), indent=1)

if __name__ == "__main__":
    main()
