//! Generators (DESIGN section 4): grammar-directed random derivation of valid
//! values (G-valid), mutation (G-mutate), equal/near-equal variants
//! (G-variants), percent-escape patterns (G-pct), IP-literal shapes (G-ipv6).
//! Built from the RFC productions, not from iref.

use crate::rng::Rng;

pub const UNRESERVED: &[&str] = &["a", "b", "c", "Z", "x", "0", "9", "-", ".", "_", "~", "g", "h"];
pub const SUB_DELIMS: &[&str] = &["!", "$", "&", "'", "(", ")", "*", "+", ",", ";", "="];
pub const PCT: &[&str] = &[
    "%41", "%2F", "%2f", "%3A", "%2e", "%2E", "%00", "%25", "%20", "%7E", "%c3%a9", "%C3%A9", "%e2%82%ac",
    "%F0%9F%98%80", "%40", "%3F", "%23", "%5B", "%61",
];
/// escapes whose octets are not well-formed UTF-8 (only where a property asks for them)
pub const PCT_BAD: &[&str] = &["%FF", "%80", "%C3", "%c0%af", "%ED%A0%80", "%F5%80%80%80", "%E2%82", "%C3%28", "%fe"];
pub const UCS: &[&str] = &[
    "\u{e9}", "\u{a0}", "\u{d7ff}", "\u{f900}", "\u{fdcf}", "\u{fdf0}", "\u{ffef}", "\u{10000}", "\u{1fffd}",
    "\u{e1000}", "\u{efffd}", "\u{4e2d}", "\u{3b1}", "\u{20ac}", "\u{1f600}",
    // code points with a reputation: BOM / zero-width no-break space, no-break and other non-ASCII spaces,
    // soft hyphen, zero-width joiners, line/paragraph separators, replacement-adjacent
    "\u{feff}", "\u{3000}", "\u{2003}", "\u{205f}", "\u{ad}", "\u{200b}", "\u{200d}", "\u{2028}", "\u{2029}", "\u{fffc}", "\u{130}", "\u{df}",
];
pub const IPRIVATE: &[&str] = &["\u{e000}", "\u{f8ff}", "\u{f0000}", "\u{ffffd}", "\u{100000}", "\u{10fffd}"];

#[derive(Clone, Copy, PartialEq, Eq, Debug)]
pub struct Opts {
    pub iri: bool,
    /// allow escapes that do not decode to UTF-8
    pub bad_pct: bool,
    /// upper bound on segment count
    pub max_segs: usize,
    /// allow very long atoms (to cross inline buffers)
    pub long: bool,
}

impl Opts {
    pub fn new(iri: bool) -> Self {
        Opts {
            iri,
            bad_pct: false,
            max_segs: 6,
            long: false,
        }
    }
}

/// A uniformly chosen ucschar (RFC 3987): every lead/continuation byte pattern gets exercised,
/// not only those of a fixed pool.
pub fn rand_ucs(rng: &mut Rng) -> char {
    const RANGES: &[(u32, u32)] = &[
        (0xA0, 0xD7FF), (0xA0, 0x7FF), (0xA0, 0x24F), (0x370, 0x52F), (0xF900, 0xFDCF), (0xFDF0, 0xFFEF), (0x10000, 0x1FFFD), (0x20000, 0x2FFFD), (0x30000, 0x3FFFD),
        (0x40000, 0x4FFFD), (0x50000, 0x5FFFD), (0x60000, 0x6FFFD), (0x70000, 0x7FFFD), (0x80000, 0x8FFFD), (0x90000, 0x9FFFD), (0xA0000, 0xAFFFD),
        (0xB0000, 0xBFFFD), (0xC0000, 0xCFFFD), (0xD0000, 0xDFFFD), (0xE1000, 0xEFFFD),
    ];
    loop {
        let (lo, hi) = rng.pick(RANGES);
        let c = lo + (rng.next() % (hi - lo + 1) as u64) as u32;
        if let Some(ch) = char::from_u32(c) {
            return ch;
        }
    }
}

fn atom(rng: &mut Rng, o: Opts, out: &mut String, extra: &[&str]) {
    let r = rng.below(100);
    if r < 50 {
        out.push_str(rng.pick(UNRESERVED));
    } else if r < 60 {
        out.push_str(rng.pick(SUB_DELIMS));
    } else if r < 72 {
        out.push_str(rng.pick(PCT));
    } else if r < 76 && o.bad_pct {
        out.push_str(rng.pick(PCT_BAD));
    } else if r < 88 && o.iri {
        if rng.chance(1, 2) {
            out.push(rand_ucs(rng));
        } else {
            out.push_str(rng.pick(UCS));
        }
    } else if !extra.is_empty() {
        out.push_str(rng.pick(extra));
    } else {
        out.push_str(rng.pick(UNRESERVED));
    }
}

fn atoms(rng: &mut Rng, o: Opts, min: usize, max: usize, extra: &[&str]) -> String {
    let mut s = String::new();
    let mut n = rng.range(min, max);
    if o.long && rng.chance(1, 40) {
        n += rng.range(100, 700);
    }
    for _ in 0..n {
        atom(rng, o, &mut s, extra);
    }
    s
}

pub fn scheme(rng: &mut Rng) -> String {
    const FIXED: &[&str] = &["http", "s", "a", "A", "urn", "x-y.z+1", "data", "file", "h2"];
    // well-known scheme words as proper prefixes of, suffixes of, or one character away from the scheme
    // (fast paths for common schemes must still look at the whole scheme)
    const NEAR_KNOWN: &[&str] = &["https", "HTTPS", "Https", "httpsx", "https+insecure", "https.", "https-", "https0", "httpx", "http+unix", "htt", "ttp", "xhttp", "ws", "wss", "wssx", "ftp", "ftps", "sftp", "files", "file+x", "datax", "dat", "urnx", "ur", "mailto", "mailtox", "tel", "about", "blob", "javascript", "did", "ipfs", "git+ssh", "view-source"];
    if rng.chance(1, 8) {
        return rng.pick(NEAR_KNOWN).to_string();
    }
    if rng.chance(3, 4) {
        return rng.pick(FIXED).to_string();
    }
    let mut s = String::new();
    s.push(rng.pick(&['a', 'b', 'Z', 'q']));
    for _ in 0..rng.below(4) {
        s.push(rng.pick(&['a', 'Z', '0', '9', '+', '-', '.']));
    }
    s
}

pub fn userinfo(rng: &mut Rng, o: Opts) -> String {
    match rng.below(8) {
        0 => String::new(),
        1 => "u".into(),
        2 => "u:p".into(),
        3 => ":".into(),
        4 => rng.pick(&["a:b:c", "user:8080", "user:1234567", ":99999", "u:", "1:2", "u%40", "%40", "u:80:x", "user:pass", "u:00000000443"]).to_string(),
        _ => atoms(rng, o, 0, 4, &[":"]),
    }
}

pub fn h16(rng: &mut Rng) -> String {
    const H: &[&str] = &["0", "1", "ff", "FFFF", "a", "0db8", "2001", "Ab9", "dead", "7"];
    rng.pick(H).to_string()
}
pub fn ipv4(rng: &mut Rng) -> String {
    const D: &[&str] = &["0", "1", "9", "10", "99", "100", "127", "199", "200", "249", "250", "255"];
    format!("{}.{}.{}.{}", rng.pick(D), rng.pick(D), rng.pick(D), rng.pick(D))
}
/// a valid IPv6address
pub fn ipv6(rng: &mut Rng) -> String {
    let v4 = rng.chance(1, 4);
    let tail_cost = if v4 { 2 } else { 0 };
    if rng.chance(1, 4) {
        // no "::": exactly 8 groups
        let n = 8 - tail_cost;
        let mut g: Vec<String> = (0..n).map(|_| h16(rng)).collect();
        if v4 {
            g.push(ipv4(rng));
        }
        g.join(":")
    } else {
        let budget = 7 - tail_cost;
        let l = rng.below(budget + 1);
        let r = rng.below(budget - l + 1);
        let left: Vec<String> = (0..l).map(|_| h16(rng)).collect();
        let mut right: Vec<String> = (0..r).map(|_| h16(rng)).collect();
        if v4 {
            right.push(ipv4(rng));
        }
        format!("{}::{}", left.join(":"), right.join(":"))
    }
}
pub fn ipvfuture(rng: &mut Rng) -> String {
    let v = if rng.chance(1, 3) { "V" } else { "v" };
    let hex = rng.pick(&["1", "f", "A0", "09"]);
    let mut rest = String::new();
    for _ in 0..rng.range(1, 4) {
        rest.push_str(rng.pick(&["a", "1", ":", "-", ".", "_", "~", "!", "=", "+"]));
    }
    format!("{}{}.{}", v, hex, rest)
}
pub fn ip_literal(rng: &mut Rng) -> String {
    if rng.chance(1, 5) {
        format!("[{}]", ipvfuture(rng))
    } else {
        format!("[{}]", ipv6(rng))
    }
}

#[derive(Clone, Copy, PartialEq, Eq, Debug)]
pub enum HostKind {
    Empty,
    RegName,
    V4,
    V6,
    VFuture,
    NonAscii,
    Pct,
}

pub fn host_of(rng: &mut Rng, o: Opts, k: HostKind) -> String {
    match k {
        HostKind::Empty => String::new(),
        HostKind::RegName => {
            if rng.chance(1, 3) {
                let mut s = String::new();
                for _ in 0..rng.range(1, 12) {
                    s.push_str(rng.pick(&["a", "b", "Z", "x", "0", "9", "-", ".", "_", "~", "!", "$", "&", "'", "(", ")", "*", "+", ",", ";", "="]));
                }
                s
            } else {
                rng.pick(&["h", "example.org", "a.b", "localhost", "x-1", "h!$&'()*+,;=", "999.1.1.1", "1.2.3", "EXAMPLE.org", "H"]).to_string()
            }
        }
        HostKind::V4 => ipv4(rng),
        HostKind::V6 => format!("[{}]", ipv6(rng)),
        HostKind::VFuture => format!("[{}]", ipvfuture(rng)),
        HostKind::NonAscii => {
            if o.iri {
                let mut h = String::new();
                for _ in 0..rng.range(1, 4) {
                    if rng.chance(1, 2) { h.push(rand_ucs(rng)); } else { h.push_str(rng.pick(UCS)); }
                }
                format!("{}{}", h, rng.pick(&["", ".org", "x"]))
            } else {
                "%C3%A9.org".to_string()
            }
        }
        HostKind::Pct => {
            let mut s = String::new();
            for _ in 0..rng.range(1, 3) {
                if o.bad_pct && rng.chance(1, 3) {
                    s.push_str(rng.pick(PCT_BAD))
                } else {
                    s.push_str(rng.pick(PCT))
                }
                if rng.chance(1, 2) {
                    s.push_str(rng.pick(UNRESERVED))
                }
            }
            s
        }
    }
}
pub const HOST_KINDS: [HostKind; 7] = [
    HostKind::Empty,
    HostKind::RegName,
    HostKind::V4,
    HostKind::V6,
    HostKind::VFuture,
    HostKind::NonAscii,
    HostKind::Pct,
];
pub fn host(rng: &mut Rng, o: Opts) -> String {
    let k = rng.pick(&HOST_KINDS);
    host_of(rng, o, k)
}
pub fn port(rng: &mut Rng) -> String {
    if rng.chance(1, 3) {
        // random digit strings, with and without leading zeros
        let mut s = String::new();
        let maxlen = if rng.chance(1, 10) { 40 } else { 6 };
        for _ in 0..rng.below(maxlen) {
            s.push(rng.pick(&['0', '0', '1', '2', '5', '8', '9']));
        }
        return s;
    }
    (rng.pick(&["", "0", "80", "8080", "65535", "00080", "123456789012345678901234567890"])).to_string()
}
pub fn authority(rng: &mut Rng, o: Opts) -> String {
    let mut s = String::new();
    if rng.chance(2, 5) {
        s.push_str(&userinfo(rng, o));
        s.push('@');
    }
    s.push_str(&host(rng, o));
    if rng.chance(2, 5) {
        s.push(':');
        s.push_str(&port(rng));
    }
    s
}

/// a path segment; `nc`: no colon; `nz`: non-empty
pub fn segment(rng: &mut Rng, o: Opts, nz: bool, nc: bool) -> String {
    loop {
        let s = match rng.below(16) {
            0 => ".".to_string(),
            1 => "..".to_string(),
            2 => String::new(),
            3 => "a:b".to_string(),
            4 => ":".to_string(),
            5 => "@".to_string(),
            6 => rng.pick(&["%2e", "%2E%2e", ".%2E", "%2e."]).to_string(),
            7 => "...".to_string(),
            8 => "1:x".to_string(),
            9 | 10 | 11 => (rng.pick(&["a", "b", "c", "foo", "bar", "d;p", "g"])).to_string(),
            _ => atoms(rng, o, 0, 3, &[":", "@"]),
        };
        if nz && s.is_empty() {
            continue;
        }
        if nc && s.contains(':') {
            continue;
        }
        return s;
    }
}

#[derive(Clone, Copy, PartialEq, Eq, Debug)]
pub enum PathKind {
    Empty,
    /// "/" + anything (path-abempty, may start with "//")
    AbEmpty,
    /// "/" [segment-nz ...]
    Absolute,
    NoScheme,
    Rootless,
}

pub fn path_of(rng: &mut Rng, o: Opts, k: PathKind) -> String {
    let nsegs = if rng.chance(1, 12) && o.max_segs > 8 { rng.range(8, o.max_segs) } else { rng.range(0, 5.min(o.max_segs)) };
    let mut rest = String::new();
    for _ in 0..nsegs {
        rest.push('/');
        rest.push_str(&segment(rng, o, false, false));
    }
    match k {
        PathKind::Empty => String::new(),
        PathKind::AbEmpty => {
            if rest.is_empty() && rng.chance(1, 2) {
                "/".to_string()
            } else {
                rest
            }
        }
        PathKind::Absolute => {
            if rng.chance(1, 6) {
                "/".to_string()
            } else if rng.chance(1, 10) {
                // the shielded spelling of a path whose first segment is empty
                format!("/./{}{}", rng.pick(&["/", "/a", "/a:b", "/h:p", "/a@b@c"]), rest)
            } else {
                format!("/{}{}", segment(rng, o, true, false), rest)
            }
        }
        PathKind::NoScheme => {
            if rng.chance(1, 10) {
                // the shielded spelling of a relative path whose first segment contains ':' or is empty
                format!("./{}{}", rng.pick(&["a:b", ":", "1:x", "", "h:p"]), rest)
            } else {
                format!("{}{}", segment(rng, o, true, true), rest)
            }
        }
        PathKind::Rootless => format!("{}{}", segment(rng, o, true, false), rest),
    }
}
/// any valid stand-alone path
pub fn path(rng: &mut Rng, o: Opts) -> String {
    let k = rng.pick(&[PathKind::Empty, PathKind::AbEmpty, PathKind::AbEmpty, PathKind::Absolute, PathKind::NoScheme, PathKind::Rootless, PathKind::Rootless]);
    path_of(rng, o, k)
}
pub fn query(rng: &mut Rng, o: Opts) -> String {
    match rng.below(8) {
        0 => String::new(),
        1 => "q".into(),
        2 => "a=b&c=d".into(),
        3 => "?/:@".into(),
        4 => "x/../y".into(),
        5 if o.iri => {
            // iprivate is only allowed in queries
            let base = rng.pick(&[0xE000u32, 0xF0000, 0x100000]);
            let off = (rng.next() % 0x18FF) as u32;
            let c = if rng.chance(1, 2) { char::from_u32(base + off).unwrap_or('\u{e000}') } else { rng.pick(IPRIVATE).chars().next().unwrap() };
            format!("{}{}{}", c, rng.pick(UCS), rand_ucs(rng))
        }
        _ => atoms(rng, o, 0, 4, &[":", "@", "/", "?"]),
    }
}
pub fn fragment(rng: &mut Rng, o: Opts) -> String {
    match rng.below(7) {
        0 => String::new(),
        1 => "f".into(),
        2 => "?/:@".into(),
        3 => "s/./x".into(),
        _ => atoms(rng, o, 0, 4, &[":", "@", "/", "?"]),
    }
}

#[derive(Clone, Debug, PartialEq, Eq)]
pub struct Parts {
    pub scheme: Option<String>,
    pub authority: Option<String>,
    pub path: String,
    pub query: Option<String>,
    pub fragment: Option<String>,
}
impl Parts {
    pub fn render(&self) -> String {
        let mut s = String::new();
        if let Some(x) = &self.scheme {
            s.push_str(x);
            s.push(':');
        }
        if let Some(x) = &self.authority {
            s.push_str("//");
            s.push_str(x);
        }
        s.push_str(&self.path);
        if let Some(x) = &self.query {
            s.push('?');
            s.push_str(x);
        }
        if let Some(x) = &self.fragment {
            s.push('#');
            s.push_str(x);
        }
        s
    }
}

/// A valid reference with the given scheme/authority presence.
pub fn parts_with(rng: &mut Rng, o: Opts, has_scheme: bool, has_authority: bool) -> Parts {
    let scheme_v = if has_scheme { Some(scheme(rng)) } else { None };
    let authority_v = if has_authority { Some(authority(rng, o)) } else { None };
    let path = if has_authority {
        path_of(rng, o, PathKind::AbEmpty)
    } else {
        let k = if has_scheme {
            rng.pick(&[PathKind::Empty, PathKind::Absolute, PathKind::Rootless, PathKind::Rootless])
        } else {
            rng.pick(&[PathKind::Empty, PathKind::Absolute, PathKind::NoScheme, PathKind::NoScheme])
        };
        path_of(rng, o, k)
    };
    let query_v = if rng.chance(2, 5) { Some(query(rng, o)) } else { None };
    let fragment_v = if rng.chance(2, 5) { Some(fragment(rng, o)) } else { None };
    Parts {
        scheme: scheme_v,
        authority: authority_v,
        path,
        query: query_v,
        fragment: fragment_v,
    }
}
pub fn reference(rng: &mut Rng, o: Opts) -> String {
    let hs = rng.chance(1, 2);
    let ha = rng.chance(1, 2);
    parts_with(rng, o, hs, ha).render()
}
pub fn full(rng: &mut Rng, o: Opts) -> String {
    let ha = rng.chance(1, 2);
    parts_with(rng, o, true, ha).render()
}

/// 1-3 character-level edits producing near-miss strings (may stay valid).
pub fn mutate(rng: &mut Rng, s: &str, other: &str) -> Vec<u8> {
    const ALPHA: &[&str] = &[
        "a", "G", "v", "1", "2", "5", "9", ":", "/", "?", "#", "[", "]", "@", "%", ".", "-", "+", "!", "\u{e9}", "\u{e000}", " ", "<", "\\", "\"", "^", "`", "{", "|", "}", "\u{7f}", "\0", "\u{fffd}", "\u{fdd0}", "\n",
    ];
    let mut c: Vec<char> = s.chars().collect();
    for _ in 0..rng.range(1, 3) {
        match rng.below(6) {
            0 if !c.is_empty() => {
                let i = rng.below(c.len());
                c.remove(i);
            }
            1 => {
                let i = rng.below(c.len() + 1);
                for (k, ch) in rng.pick(ALPHA).chars().enumerate() {
                    c.insert(i + k, ch);
                }
            }
            2 if !c.is_empty() => {
                let i = rng.below(c.len());
                c[i] = rng.pick(ALPHA).chars().next().unwrap();
            }
            3 if c.len() >= 2 => {
                let i = rng.below(c.len() - 1);
                c.swap(i, i + 1);
            }
            4 => {
                let oc: Vec<char> = other.chars().collect();
                let i = rng.below(c.len() + 1);
                let j = rng.below(oc.len() + 1);
                c.truncate(i);
                c.extend_from_slice(&oc[j..]);
            }
            _ => {
                let i = rng.below(c.len() + 1);
                c.insert(i, rng.pick(&[':', '/', '?', '#', '@', '[', ']', '%']));
            }
        }
    }
    let t: String = c.into_iter().collect();
    let mut b = t.into_bytes();
    // occasionally break UTF-8 at the byte level
    if rng.chance(1, 12) && !b.is_empty() {
        let i = rng.below(b.len());
        match rng.below(3) {
            0 => b[i] = rng.pick(&[0x80u8, 0xFF, 0xC3, 0xE2, 0xF0, 0xC0, 0xED]),
            1 => {
                b.insert(i, rng.pick(&[0x80u8, 0xBF, 0xC3, 0xFE]));
            }
            _ => {
                b.truncate(i);
            }
        }
    }
    b
}

/// Ill-formed UTF-8 shapes (DESIGN G-sweep).
pub const ILL_FORMED: &[&[u8]] = &[
    b"\x80", b"\xBF", b"\xC3", b"\xE2\x82", b"\xF0\x9F\x98", b"\xC0\xAF", b"\xC1\xBF", b"\xE0\x80\xAF", b"\xF0\x80\x80\xAF",
    b"\xED\xA0\x80", b"\xED\xBF\xBF", b"\xF4\x90\x80\x80", b"\xF5\x80\x80\x80", b"\xFE", b"\xFF", b"\xC3\x28", b"\xE2\x28\xA1",
];

// ------------------------------------------------------------- G-variants

fn is_unreserved_byte(b: u8) -> bool {
    b.is_ascii_alphanumeric() || matches!(b, b'-' | b'.' | b'_' | b'~')
}

/// A textually different spelling of the same component octets: toggles
/// percent-encoding of unreserved characters and hex case.  Dots are left
/// alone when `keep_dots` (a path segment "." must not become "%2E").
pub fn respell_component(rng: &mut Rng, s: &str, keep_dots: bool) -> String {
    let b = s.as_bytes();
    let mut out = String::new();
    let mut i = 0;
    while i < b.len() {
        if b[i] == b'%' && i + 2 < b.len() {
            let h = &s[i + 1..i + 3];
            let v = u8::from_str_radix(h, 16).unwrap_or(0);
            if is_unreserved_byte(v) && !(keep_dots && v == b'.') && rng.chance(1, 2) {
                out.push(v as char);
            } else if rng.chance(1, 2) {
                out.push('%');
                out.push_str(&h.to_ascii_lowercase());
            } else {
                out.push('%');
                out.push_str(&h.to_ascii_uppercase());
            }
            i += 3;
        } else if is_unreserved_byte(b[i]) && !(keep_dots && b[i] == b'.') && rng.chance(1, 4) {
            out.push_str(&format!("%{:02X}", b[i]));
            i += 1;
        } else if b[i] >= 0x80 && rng.chance(1, 3) {
            // literal non-ASCII -> escapes of its UTF-8 octets
            let ch = s[i..].chars().next().unwrap();
            let mut buf = [0u8; 4];
            for x in ch.encode_utf8(&mut buf).bytes() {
                out.push_str(&format!("%{:02x}", x));
            }
            i += ch.len_utf8();
        } else {
            let ch = s[i..].chars().next().unwrap();
            out.push(ch);
            i += ch.len_utf8();
        }
    }
    out
}

/// Every byte percent-encoded: the same octets after decoding (a valid reg-name / user info /
/// segment / query / fragment whatever the original characters were).
pub fn encode_all(s: &str, lower: bool) -> String {
    s.bytes().map(|b| if lower { format!("%{:02x}", b) } else { format!("%{:02X}", b) }).collect()
}

/// Path with the same normalised sequence: inserts "./" and "x/../" at segment
/// boundaries and re-spells segments.
pub fn respell_path(rng: &mut Rng, p: &str) -> String {
    let abs = p.starts_with('/');
    let body = if abs { &p[1..] } else { p };
    if body.is_empty() {
        return p.to_string();
    }
    let segs: Vec<&str> = body.split('/').collect();
    let mut out: Vec<String> = Vec::new();
    for (i, s) in segs.iter().enumerate() {
        // inserting before index 0 of a relative path whose first segments are ".." is still fine:
        // "x/.." cancels itself, "." disappears.
        if rng.chance(1, 4) {
            out.push(".".into());
        }
        if rng.chance(1, 5) {
            out.push("x".into());
            out.push("..".into());
        }
        if *s == "." || *s == ".." {
            out.push(s.to_string());
        } else {
            out.push(respell_component(rng, s, true));
            // step out of the segment and back into it
            if rng.chance(1, 8) {
                out.push("..".into());
                out.push(s.to_string());
            }
        }
        let _ = i;
    }
    format!("{}{}", if abs { "/" } else { "" }, out.join("/"))
}

/// An M-eq-equal respelling of a whole reference (scheme and port untouched).
pub fn respell_parts(rng: &mut Rng, p: &Parts) -> Parts {
    let mut q = p.clone();
    if let Some(a) = &p.authority {
        // userinfo@host:port
        let (ui, rest) = match a.find('@') {
            Some(i) => (Some(&a[..i]), &a[i + 1..]),
            None => (None, &a[..]),
        };
        let (host, port) = if rest.starts_with('[') {
            let e = rest.find(']').map(|i| i + 1).unwrap_or(rest.len());
            (&rest[..e], rest[e..].strip_prefix(':'))
        } else {
            match rest.find(':') {
                Some(i) => (&rest[..i], Some(&rest[i + 1..])),
                None => (rest, None),
            }
        };
        let mut s = String::new();
        if let Some(u) = ui {
            s.push_str(&respell_component(rng, u, false));
            s.push('@');
        }
        if host.starts_with('[') {
            s.push_str(host)
        } else {
            s.push_str(&respell_component(rng, host, false))
        }
        if let Some(pt) = port {
            s.push(':');
            s.push_str(pt);
        }
        q.authority = Some(s);
    }
    q.path = respell_path(rng, &p.path);
    // a relative path must not start with a colon-bearing first segment when there is no scheme,
    // and the no-authority path must not start with "//": respell_path never creates those.
    if let Some(x) = &p.query {
        q.query = Some(respell_component(rng, x, false));
    }
    if let Some(x) = &p.fragment {
        q.fragment = Some(respell_component(rng, x, false));
    }
    q
}

/// A near-equal but M-eq-different variant (one octet changed, trailing '/'
/// added, absoluteness flipped, "%2F" vs "/", component presence toggled).
pub fn perturb_parts(rng: &mut Rng, p: &Parts) -> Parts {
    let mut q = p.clone();
    match rng.below(11) {
        10 => {
            let (qa, fa) = if rng.chance(1, 2) { ("a", "z") } else { ("z", "a") };
            q.query = Some(format!("{}{}", p.query.clone().unwrap_or_default(), qa));
            q.fragment = Some(format!("{}{}", p.fragment.clone().unwrap_or_default(), fa));
        }
        9 => {
            // a segment boundary versus a character that sorts below '/' (orderings must still be total)
            let idx: Vec<usize> = p.path.char_indices().filter(|(i, c)| *c == '/' && *i > 0).map(|(i, _)| i).collect();
            if idx.is_empty() {
                q.path.push_str("-x");
            } else {
                let i = rng.pick(&idx);
                q.path.replace_range(i..i + 1, rng.pick(&["-", "!", "$", "&", "'", "(", ")", "*", "+", ",", "%2D", "%00", "%01", "%FF", "%7F", "%2E", "%00%00"]));
            }
        }
        0 => q.path.push_str("/"),
        1 => q.path.push_str("/z"),
        2 => {
            q.query = match &p.query {
                Some(x) if x.is_empty() => None,
                Some(_) => Some(String::new()),
                None => Some(String::new()),
            }
        }
        3 => {
            q.fragment = match &p.fragment {
                Some(x) if x.is_empty() => None,
                Some(_) => Some(String::new()),
                None => Some(String::new()),
            }
        }
        4 => {
            if let Some(s) = &p.scheme {
                q.scheme = Some(if s.chars().any(|c| c.is_ascii_lowercase()) { s.to_ascii_uppercase() } else { format!("{}x", s) })
            } else {
                q.fragment = Some("zz".into())
            }
        }
        5 => {
            q.path = p.path.replacen("/", "%2F", 1);
            if q.path == p.path {
                q.path.push_str("%2F")
            }
            if p.authority.is_some() && !q.path.starts_with('/') {
                q.path.insert(0, '/');
                q.path.push_str("%2F");
            }
        }
        6 => {
            if let Some(a) = &p.authority {
                q.authority = Some(if a.ends_with(':') { a[..a.len() - 1].to_string() } else if !a.contains(':') && !a.contains('[') { format!("{}:", a) } else { format!("w{}", a) });
            } else {
                q.query = Some("zz".into())
            }
        }
        7 => {
            if let Some(x) = &p.query {
                q.query = Some(format!("{}z", x))
            } else {
                q.path.push_str("/y")
            }
        }
        _ => {
            if let Some(x) = &p.fragment {
                q.fragment = Some(format!("{}%20", x))
            } else {
                q.path.push_str("/..a")
            }
        }
    }
    q
}

// ------------------------------------------------------------- G-pct

/// Component bodies over interesting %XX patterns (all valid as reg-name,
/// userinfo, segment, query and fragment characters).
pub fn pct_patterns(iri: bool) -> Vec<String> {
    let mut v: Vec<String> = Vec::new();
    for b in 0..=255u32 {
        v.push(format!("%{:02X}", b));
        if b % 7 == 0 {
            v.push(format!("a%{:02x}b", b));
        }
        // the escape at the very end / start of a longer component, in either hex case
        v.push(format!("ab%{:02X}", b));
        v.push(format!("%{:02x}ab", b));
        if b >= 0x80 {
            v.push(format!("\u{e9}%{:02X}", b));
        }
    }
    let fixed = [
        "", "a", "%c3%a9", "%C3%A9", "%e2%82%ac", "%F0%9F%98%80", "a%C3%A9b", "%41%42", "%61", "a",
        // truncated
        "%C3", "%E2%82", "%F0%9F%98", "%C3a", "%E2%82a", "a%C3",
        // lone continuation / lead
        "%80", "%BF", "%80%80", "%C3%C3%A9",
        // overlong
        "%C0%AF", "%C1%81", "%E0%80%AF", "%F0%80%80%AF", "%C0%80",
        // surrogates, > F4
        "%ED%A0%80", "%ED%BF%BF", "%F4%90%80%80", "%F5%80%80%80", "%FE", "%FF%FF",
        // unreserved encoded
        "%7E", "%2D%2E%5F", "%2e", "%2E%2E",
        // delimiters encoded
        "%2F", "%3A", "%40", "%3F", "%23", "%25", "%5B%5D", "%00",
    ];
    for f in fixed {
        v.push(f.to_string());
    }
    if iri {
        for f in ["\u{e9}", "\u{e9}%C3%A9", "%C3\u{e9}", "\u{20ac}%E2%82%AC", "%E2\u{82}", "\u{1f600}%F0", "a\u{e9}%FF"] {
            // "%E2\u{82}": U+0082 is not a ucschar -> filtered by validity later
            v.push(f.to_string());
        }
    }
    v
}

// ------------------------------------------------------------- G-ipv6

/// Structured enumeration of IP-literal *inner* shapes (valid and invalid).
pub fn ipv6_shapes() -> Vec<String> {
    let mut v: Vec<String> = Vec::new();
    let groups = ["1", "abcd", "12345", "g"];
    let tails = ["", "1.2.3.4"];
    for l in 0..=8usize {
        for r in 0..=8usize {
            for dc in [false, true] {
                for g in groups {
                    for t in tails {
                        if !dc && r > 0 {
                            continue;
                        }
                        let left: Vec<&str> = (0..l).map(|_| g).collect();
                        let mut right: Vec<&str> = (0..r).map(|_| g).collect();
                        if !t.is_empty() {
                            if dc {
                                right.push(t)
                            }
                        }
                        let mut s = left.join(":");
                        if dc {
                            s.push_str("::");
                            s.push_str(&right.join(":"));
                        } else if !t.is_empty() {
                            if !s.is_empty() {
                                s.push(':');
                            }
                            s.push_str(t);
                        }
                        v.push(s);
                    }
                }
            }
        }
    }
    // IPv4 tail at every position
    for pos in 0..=7usize {
        let mut g: Vec<&str> = vec!["1"; 7];
        g.insert(pos, "1.2.3.4");
        v.push(g.join(":"));
        let mut g: Vec<&str> = vec!["1"; 3];
        g.insert(pos.min(3), "1.2.3.4");
        v.push(format!("::{}", g.join(":")));
        v.push(format!("{}::", g.join(":")));
    }
    // dec-octet boundaries
    for d in ["0", "9", "10", "99", "100", "199", "200", "249", "250", "255", "256", "260", "300", "00", "01", "1000", "", "a"] {
        v.push(format!("::{}.1.1.1", d));
        v.push(format!("::1.1.1.{}", d));
        v.push(format!("1:2:3:4:5:6:1.{}.1.1", d));
    }
    for s in [":", "::", ":::", "::::", "1:", ":1", "1::2::3", "::1.2.3", "::1.2.3.4.5", "1.2.3.4", "::1.2.3.4:1", "ffff::FFFF", "0::0", "::0:0:0:0:0:0:0", "::0:0:0:0:0:0:0:0", "0:0:0:0:0:0:0::", "0:0:0:0:0:0:0:0::"] {
        v.push(s.to_string());
    }
    // IPvFuture forms
    for s in ["v1.a", "V1.a", "vF.a:b", "v.a", "v1.", "v1", "v1a", "vg.a", "v1.a/b", "v1.%41", "v1.[", "v01.a!$&'()*+,;=", "x1.a", "v1..", "v1.a@"] {
        v.push(s.to_string());
    }
    v.sort();
    v.dedup();
    v
}


// ------------------------------------------------------------- length sweeps

/// Lengths around every plausible fixed-width, chunking or inline-buffer threshold.
pub fn sweep_lengths() -> Vec<usize> {
    let mut v: Vec<usize> = (0..=70).collect();
    for base in [127usize, 255, 511, 1023, 4095, 65535] {
        v.extend_from_slice(&[base - 1, base, base + 1, base + 2]);
    }
    v.extend_from_slice(&[79, 80, 81, 95, 96, 97, 111, 112, 113, 143, 144, 145, 159, 160, 161, 300, 700, 2000]);
    v.sort();
    v.dedup();
    v
}

/// References in which ONE component has exactly `len` bytes (ASCII) or `len` characters of a
/// two-byte letter: scheme, user info, host, port, first/middle/last path segment, query, fragment.
pub fn length_sweep_refs(len: usize, iri: bool) -> Vec<String> {
    let unit = if iri { "\u{e9}" } else { "a" };
    let body = unit.repeat(len);
    let ascii = "a".repeat(len);
    let digits = "7".repeat(len);
    let mut v = vec![
        format!("s://u@h:1/{}", body),
        format!("s://u@h:1/{}/x", body),
        format!("s://u@h:1/x/{}/y", body),
        format!("s://u@h:1/x/y/{}", body),
        format!("{}/x", body),
        format!("/{}", body),
        format!("x/{}/", body),
        format!("s:{}", body),
        format!("s://{}@h/p", body),
        format!("s://{}/p", body),
        format!("s://h:{}/p", digits),
        format!("//{}", body),
        format!("s://h/p?{}", body),
        format!("s://h/p#{}", body),
        format!("?{}#{}", body, body),
        format!("s://h/{}?q#f", "x/".repeat(len)),
        format!("{}x", "../".repeat(len)),
        format!("/a/{}b", "./".repeat(len)),
    ];
    if len > 0 {
        v.push(format!("a{}://h/p", &ascii[1..]));
        v.push(format!("a{}:p", &ascii[1..]));
    }
    v
}
