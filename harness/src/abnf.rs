//! M-abnf: hand transcription of RFC 3986 section 3/4 + Appendix A and RFC 3987
//! section 2.2 as a recogniser over code points, one function per production.
//! Written from the RFC text, not from iref's grammar files.
//!
//! `iri == false`: URI family.  Inputs are bytes widened to u32; a byte >= 0x80
//! never matches because no URI class contains it.
//! `iri == true`: IRI family, inputs are Unicode scalar values.

pub type S<'a> = &'a [u32];

const COLON: u32 = ':' as u32;
const SLASH: u32 = '/' as u32;
const AT: u32 = '@' as u32;
const QM: u32 = '?' as u32;
const HASH: u32 = '#' as u32;
const PCT: u32 = '%' as u32;
const DOT: u32 = '.' as u32;

pub fn is_alpha(c: u32) -> bool {
    (0x41..=0x5A).contains(&c) || (0x61..=0x7A).contains(&c)
}
pub fn is_digit(c: u32) -> bool {
    (0x30..=0x39).contains(&c)
}
pub fn is_hex(c: u32) -> bool {
    is_digit(c) || (0x41..=0x46).contains(&c) || (0x61..=0x66).contains(&c)
}
pub fn is_ucschar(c: u32) -> bool {
    matches!(c,
        0xA0..=0xD7FF | 0xF900..=0xFDCF | 0xFDF0..=0xFFEF
        | 0x10000..=0x1FFFD | 0x20000..=0x2FFFD | 0x30000..=0x3FFFD
        | 0x40000..=0x4FFFD | 0x50000..=0x5FFFD | 0x60000..=0x6FFFD
        | 0x70000..=0x7FFFD | 0x80000..=0x8FFFD | 0x90000..=0x9FFFD
        | 0xA0000..=0xAFFFD | 0xB0000..=0xBFFFD | 0xC0000..=0xCFFFD
        | 0xD0000..=0xDFFFD | 0xE1000..=0xEFFFD)
}
pub fn is_iprivate(c: u32) -> bool {
    matches!(c, 0xE000..=0xF8FF | 0xF0000..=0xFFFFD | 0x100000..=0x10FFFD)
}
pub fn is_unreserved(c: u32, iri: bool) -> bool {
    is_alpha(c) || is_digit(c) || matches!(c, 0x2D | 0x2E | 0x5F | 0x7E) || (iri && is_ucschar(c))
}
pub fn is_sub_delim(c: u32) -> bool {
    matches!(
        char::from_u32(c),
        Some('!' | '$' | '&' | '\'' | '(' | ')' | '*' | '+' | ',' | ';' | '=')
    )
}

/// `*( unreserved / pct-encoded / sub-delims / extra )` over the whole string.
fn star(s: S, iri: bool, extra: &dyn Fn(u32) -> bool) -> bool {
    let mut i = 0;
    while i < s.len() {
        let c = s[i];
        if c == PCT {
            if i + 3 <= s.len() && is_hex(s[i + 1]) && is_hex(s[i + 2]) {
                i += 3;
                continue;
            } else {
                return false;
            }
        }
        if is_unreserved(c, iri) || is_sub_delim(c) || extra(c) {
            i += 1
        } else {
            return false;
        }
    }
    true
}

pub fn scheme(s: S) -> bool {
    !s.is_empty()
        && is_alpha(s[0])
        && s[1..]
            .iter()
            .all(|&c| is_alpha(c) || is_digit(c) || matches!(c, 0x2B | 0x2D | 0x2E))
}
pub fn userinfo(s: S, iri: bool) -> bool {
    star(s, iri, &|c| c == COLON)
}
pub fn reg_name(s: S, iri: bool) -> bool {
    star(s, iri, &|_| false)
}
pub fn port(s: S) -> bool {
    s.iter().all(|&c| is_digit(c))
}
fn dec_octet(s: S) -> bool {
    if s.is_empty() || !s.iter().all(|&c| is_digit(c)) {
        return false;
    }
    match s.len() {
        1 => true,
        2 => s[0] != 0x30,
        3 => {
            let v = (s[0] - 0x30) * 100 + (s[1] - 0x30) * 10 + (s[2] - 0x30);
            s[0] != 0x30 && v <= 255
        }
        _ => false,
    }
}
pub fn ipv4(s: S) -> bool {
    let p: Vec<S> = s.split(|&c| c == DOT).collect();
    p.len() == 4 && p.iter().all(|x| dec_octet(x))
}
fn h16(s: S) -> bool {
    (1..=4).contains(&s.len()) && s.iter().all(|&c| is_hex(c))
}
/// `h16 *( ":" h16 )` -> number of groups; the empty string is 0 groups.
fn h16_list(s: S) -> Option<usize> {
    if s.is_empty() {
        return Some(0);
    }
    let p: Vec<S> = s.split(|&c| c == COLON).collect();
    if p.iter().all(|x| h16(x)) {
        Some(p.len())
    } else {
        None
    }
}
/// A run of h16 groups that may end in an IPv4address (which counts as two groups).
fn tail_groups(s: S) -> Option<usize> {
    if s.is_empty() {
        return Some(0);
    }
    if let Some(n) = h16_list(s) {
        return Some(n);
    }
    match s.iter().rposition(|&c| c == COLON) {
        Some(i) => {
            if i > 0 && ipv4(&s[i + 1..]) {
                h16_list(&s[..i]).map(|n| n + 2)
            } else {
                None
            }
        }
        None => {
            if ipv4(s) {
                Some(2)
            } else {
                None
            }
        }
    }
}
/// The nine alternatives of IPv6address, expressed through group counts:
/// without "::" exactly 8 groups; with "::" at most 7 groups in total, the part
/// left of "::" being pure h16 groups and the right part optionally ending in
/// an IPv4address.
pub fn ipv6(s: S) -> bool {
    let mut dc = None;
    let mut i = 0;
    while i + 1 < s.len() {
        if s[i] == COLON && s[i + 1] == COLON {
            if dc.is_some() {
                return false;
            }
            dc = Some(i);
            i += 2;
        } else {
            i += 1
        }
    }
    match dc {
        None => !s.is_empty() && tail_groups(s) == Some(8),
        Some(i) => {
            let left = &s[..i];
            let right = &s[i + 2..];
            let (Some(l), Some(r)) = (h16_list(left), tail_groups(right)) else {
                return false;
            };
            l + r <= 7
        }
    }
}
pub fn ipvfuture(s: S) -> bool {
    // "v" is a case-insensitive literal (RFC 5234 section 2.3).
    if s.len() < 4 || !(s[0] == 'v' as u32 || s[0] == 'V' as u32) {
        return false;
    }
    let Some(dot) = s.iter().position(|&c| c == DOT) else {
        return false;
    };
    let hex = &s[1..dot];
    let rest = &s[dot + 1..];
    !hex.is_empty()
        && hex.iter().all(|&c| is_hex(c))
        && !rest.is_empty()
        && rest
            .iter()
            .all(|&c| is_unreserved(c, false) || is_sub_delim(c) || c == COLON)
}
pub fn ip_literal(s: S) -> bool {
    s.len() >= 2 && s[0] == '[' as u32 && s[s.len() - 1] == ']' as u32 && {
        let inner = &s[1..s.len() - 1];
        ipv6(inner) || ipvfuture(inner)
    }
}
pub fn host(s: S, iri: bool) -> bool {
    // IPv4address is a subset of reg-name.
    ip_literal(s) || ipv4(s) || reg_name(s, iri)
}
pub fn authority(s: S, iri: bool) -> bool {
    // [ userinfo "@" ] host [ ":" port ]  -- try every split.
    let mut starts: Vec<(Option<usize>, usize)> = vec![(None, 0)];
    for (i, &c) in s.iter().enumerate() {
        if c == AT {
            starts.push((Some(i), i + 1));
        }
    }
    for (ui_end, hs) in starts {
        if let Some(e) = ui_end {
            if !userinfo(&s[..e], iri) {
                continue;
            }
        }
        let rest = &s[hs..];
        if host(rest, iri) {
            return true;
        }
        for (i, &c) in rest.iter().enumerate() {
            if c == COLON && host(&rest[..i], iri) && port(&rest[i + 1..]) {
                return true;
            }
        }
    }
    false
}
pub fn segment(s: S, iri: bool) -> bool {
    star(s, iri, &|c| c == COLON || c == AT)
}
fn segment_nz(s: S, iri: bool) -> bool {
    !s.is_empty() && segment(s, iri)
}
fn segment_nz_nc(s: S, iri: bool) -> bool {
    !s.is_empty() && star(s, iri, &|c| c == AT)
}
fn segs(s: S) -> Vec<S> {
    s.split(|&c| c == SLASH).collect()
}
pub fn path_abempty(s: S, iri: bool) -> bool {
    s.is_empty() || (s[0] == SLASH && segs(&s[1..]).iter().all(|x| segment(x, iri)))
}
pub fn path_absolute(s: S, iri: bool) -> bool {
    !s.is_empty()
        && s[0] == SLASH
        && (s.len() == 1 || {
            let p = segs(&s[1..]);
            segment_nz(p[0], iri) && p[1..].iter().all(|x| segment(x, iri))
        })
}
pub fn path_rootless(s: S, iri: bool) -> bool {
    let p = segs(s);
    segment_nz(p[0], iri) && p[1..].iter().all(|x| segment(x, iri))
}
pub fn path_noscheme(s: S, iri: bool) -> bool {
    let p = segs(s);
    segment_nz_nc(p[0], iri) && p[1..].iter().all(|x| segment(x, iri))
}
pub fn path(s: S, iri: bool) -> bool {
    path_abempty(s, iri)
        || path_absolute(s, iri)
        || path_noscheme(s, iri)
        || path_rootless(s, iri)
        || s.is_empty()
}
pub fn query(s: S, iri: bool) -> bool {
    star(s, iri, &|c| c == COLON || c == AT || c == SLASH || c == QM || (iri && is_iprivate(c)))
}
pub fn fragment(s: S, iri: bool) -> bool {
    star(s, iri, &|c| c == COLON || c == AT || c == SLASH || c == QM)
}
fn hier_or_rel(s: S, iri: bool, rel: bool) -> bool {
    if s.len() >= 2 && s[0] == SLASH && s[1] == SLASH {
        let r = &s[2..];
        let e = r.iter().position(|&c| c == SLASH).unwrap_or(r.len());
        if authority(&r[..e], iri) && path_abempty(&r[e..], iri) {
            return true;
        }
    }
    path_absolute(s, iri)
        || (if rel {
            path_noscheme(s, iri)
        } else {
            path_rootless(s, iri)
        })
        || s.is_empty()
}
fn split_qf(s: S) -> (S, Option<S>, Option<S>) {
    let (pre, f) = match s.iter().position(|&c| c == HASH) {
        Some(i) => (&s[..i], Some(&s[i + 1..])),
        None => (s, None),
    };
    let (hp, q) = match pre.iter().position(|&c| c == QM) {
        Some(i) => (&pre[..i], Some(&pre[i + 1..])),
        None => (pre, None),
    };
    (hp, q, f)
}
pub fn uri(s: S, iri: bool) -> bool {
    let Some(c) = s.iter().position(|&c| c == COLON) else {
        return false;
    };
    if !scheme(&s[..c]) {
        return false;
    }
    let (hp, q, f) = split_qf(&s[c + 1..]);
    hier_or_rel(hp, iri, false)
        && q.map_or(true, |q| query(q, iri))
        && f.map_or(true, |f| fragment(f, iri))
}
pub fn relative_ref(s: S, iri: bool) -> bool {
    let (hp, q, f) = split_qf(s);
    hier_or_rel(hp, iri, true)
        && q.map_or(true, |q| query(q, iri))
        && f.map_or(true, |f| fragment(f, iri))
}
pub fn uri_reference(s: S, iri: bool) -> bool {
    uri(s, iri) || relative_ref(s, iri)
}

/// The productions behind the 20 validated types (scheme and port are shared).
#[derive(Clone, Copy, Debug, PartialEq, Eq, Hash, PartialOrd, Ord)]
pub enum Prod {
    Ri,
    RiRef,
    Scheme,
    Authority,
    UserInfo,
    Host,
    Port,
    Path,
    Segment,
    Query,
    Fragment,
}

pub const ALL_PRODS: [Prod; 11] = [
    Prod::Ri,
    Prod::RiRef,
    Prod::Scheme,
    Prod::Authority,
    Prod::UserInfo,
    Prod::Host,
    Prod::Port,
    Prod::Path,
    Prod::Segment,
    Prod::Query,
    Prod::Fragment,
];

pub fn accepts(p: Prod, s: S, iri: bool) -> bool {
    match p {
        Prod::Ri => uri(s, iri),
        Prod::RiRef => uri_reference(s, iri),
        Prod::Scheme => scheme(s),
        Prod::Authority => authority(s, iri),
        Prod::UserInfo => userinfo(s, iri),
        Prod::Host => host(s, iri),
        Prod::Port => port(s),
        Prod::Path => path(s, iri),
        Prod::Segment => segment(s, iri),
        Prod::Query => query(s, iri),
        Prod::Fragment => fragment(s, iri),
    }
}

pub fn widen(b: &[u8]) -> Vec<u32> {
    b.iter().map(|&x| x as u32).collect()
}
pub fn codepoints(s: &str) -> Vec<u32> {
    s.chars().map(|c| c as u32).collect()
}

/// Verdict of the model for a *byte* input in the given family: the URI family
/// reads bytes; the IRI family requires well-formed UTF-8 first.
pub fn accepts_bytes(p: Prod, b: &[u8], iri: bool) -> bool {
    if iri {
        match std::str::from_utf8(b) {
            Ok(s) => accepts(p, &codepoints(s), true),
            Err(_) => false,
        }
    } else {
        accepts(p, &widen(b), false)
    }
}

/// Self-tests anchoring the recogniser to RFC material.  A failure makes the
/// run inconclusive (the model is broken), never a violation.
pub fn self_test() -> Result<(), String> {
    let t = |p: Prod, s: &str, iri: bool, want: bool| -> Result<(), String> {
        let got = accepts(p, &codepoints(s), iri);
        if got != want {
            Err(format!("M-abnf self-test: {:?} {:?} iri={} expected {}", p, s, iri, want))
        } else {
            Ok(())
        }
    };
    // RFC 3986 section 1.1.2 examples
    for s in [
        "ftp://ftp.is.co.za/rfc/rfc1808.txt",
        "http://www.ietf.org/rfc/rfc2396.txt",
        "ldap://[2001:db8::7]/c=GB?objectClass?one",
        "mailto:John.Doe@example.com",
        "news:comp.infosystems.www.servers.unix",
        "tel:+1-816-555-1212",
        "telnet://192.0.2.16:80/",
        "urn:oasis:names:specification:docbook:dtd:xml:4.1.2",
    ] {
        t(Prod::Ri, s, false, true)?;
        t(Prod::Ri, s, true, true)?;
        t(Prod::RiRef, s, false, true)?;
    }
    // RFC 3986 section 5.4 references
    for s in [
        "g:h", "g", "./g", "g/", "/g", "//g", "?y", "g?y", "#s", "g#s", "g?y#s", ";x", "g;x",
        "g;x?y#s", "", ".", "./", "..", "../", "../g", "../..", "../../", "../../g",
        "../../../g", "/./g", "/../g", "g.", ".g", "g..", "..g", "./../g", "./g/.", "g/./h",
        "g/../h", "g;x=1/./y", "g;x=1/../y", "g?y/./x", "g?y/../x", "g#s/./x", "g#s/../x",
    ] {
        t(Prod::RiRef, s, false, true)?;
    }
    t(Prod::RiRef, "http:g", false, true)?;
    t(Prod::RiRef, "1:x", false, false)?;
    t(Prod::RiRef, ":x", false, false)?;
    t(Prod::RiRef, "a b", false, false)?;
    t(Prod::RiRef, "a/b:c", false, true)?;
    t(Prod::RiRef, "./b:c", false, true)?;
    t(Prod::Ri, "a", false, false)?;
    t(Prod::Ri, "a:", false, true)?;
    t(Prod::Ri, "a://", false, true)?;
    t(Prod::Ri, "a:////", false, true)?;
    t(Prod::Ri, "a:/", false, true)?;
    t(Prod::Ri, "a://b:c", false, false)?;
    t(Prod::Ri, "a://b:1x", false, false)?;
    t(Prod::Ri, "a://u@b:1", false, true)?;
    t(Prod::Ri, "a://u@v@b", false, false)?;
    t(Prod::Ri, "a:%", false, false)?;
    t(Prod::Ri, "a:%4", false, false)?;
    t(Prod::Ri, "a:%4g", false, false)?;
    t(Prod::Ri, "a:%4F", false, true)?;
    t(Prod::Ri, "a:#%4F?#", false, false)?;
    t(Prod::Ri, "a:#?/", false, true)?;
    // IPv6 (RFC 4291 / RFC 3986 examples)
    for (s, w) in [
        ("::", true), ("::1", true), ("1::", true), ("1:2:3:4:5:6:7:8", true),
        ("1:2:3:4:5:6:7", false), ("1:2:3:4:5:6:7:8:9", false), ("1:2:3:4:5:6:7::", true),
        ("1:2:3:4:5:6:7::8", false), ("::2:3:4:5:6:7:8", true), ("::1:2:3:4:5:6:7:8", false),
        ("1::8", true), ("1::2::3", false), (":::", false), ("1:::2", false),
        ("::1.2.3.4", true), ("1:2:3:4:5:6:1.2.3.4", true), ("1:2:3:4:5:6:7:1.2.3.4", false),
        ("::1.2.3.4:5", false), ("1.2.3.4::", false), ("::ffff:255.255.255.255", true),
        ("::256.1.1.1", false), ("::01.1.1.1", false), ("12345::", false), ("g::", false),
        ("1:2:3:4:5::1.2.3.4", true), ("1:2:3:4:5:6::1.2.3.4", false), ("", false),
        ("2001:db8::7", true), ("FEDC:BA98:7654:3210:FEDC:BA98:7654:3210", true),
        ("::1.2.3", false), (":1", false), ("1:", false),
    ] {
        let got = ipv6(&codepoints(s));
        if got != w {
            return Err(format!("M-abnf self-test: IPv6 {:?} expected {}", s, w));
        }
    }
    t(Prod::Host, "[v1.a]", false, true)?;
    t(Prod::Host, "[V1f.a:b]", false, true)?;
    t(Prod::Host, "[v.a]", false, false)?;
    t(Prod::Host, "[v1.]", false, false)?;
    t(Prod::Host, "[v1.\u{e9}]", true, false)?;
    t(Prod::Host, "[::1", false, false)?;
    t(Prod::Host, "a:b", false, false)?;
    t(Prod::Host, "", false, true)?;
    t(Prod::Host, "\u{e9}", true, true)?;
    t(Prod::Host, "\u{e9}", false, false)?;
    t(Prod::Host, "999.1.1.1", false, true)?; // reg-name
    t(Prod::Authority, "[::1]:80", false, true)?;
    t(Prod::Authority, "u:p@[::1]:", false, true)?;
    t(Prod::Authority, "a@b@c", false, false)?;
    t(Prod::Authority, "a:b", false, false)?;
    t(Prod::Authority, "a:1:2", false, false)?;
    t(Prod::Authority, "a:b@c:1", false, true)?;
    t(Prod::Path, "a:b", false, true)?;
    t(Prod::Path, "//a", false, true)?;
    t(Prod::Path, "a?b", false, false)?;
    t(Prod::Segment, "a/b", false, false)?;
    t(Prod::Query, "\u{e000}", true, true)?;
    t(Prod::Fragment, "\u{e000}", true, false)?;
    t(Prod::Query, "\u{e000}", false, false)?;
    t(Prod::Segment, "\u{a0}", true, true)?;
    t(Prod::Segment, "\u{9f}", true, false)?;
    t(Prod::Segment, "\u{d7ff}", true, true)?;
    t(Prod::Segment, "\u{fdd0}", true, false)?;
    t(Prod::Segment, "\u{fffd}", true, false)?;
    t(Prod::Segment, "\u{1fffd}", true, true)?;
    t(Prod::Segment, "\u{1fffe}", true, false)?;
    t(Prod::Segment, "\u{e0000}", true, false)?;
    t(Prod::Segment, "\u{e1000}", true, true)?;
    t(Prod::Scheme, "a+-.1", false, true)?;
    t(Prod::Scheme, "", false, false)?;
    t(Prod::Scheme, "1a", false, false)?;
    t(Prod::Port, "", false, true)?;
    t(Prod::Port, "0123456789", false, true)?;
    t(Prod::Port, "1a", false, false)?;
    Ok(())
}
