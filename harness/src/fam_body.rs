// Family-generic monitor bodies.  This file is `include!`d twice (fam.rs): once
// with the IRI types in scope and once with the URI types, under the common
// names Ri / RiBuf / RiRef / RiRefBuf / Authority / Path / Segment / ...
// Inputs are `&str`; the caller only passes text the RFC model accepts for the
// family (ASCII for the URI family).

use crate::ctx::{show, show_opt, Ctx, Feats};
use crate::model;
use crate::abnf::{self, Prod};

fn b(s: &str) -> &[u8] {
    s.as_bytes()
}
fn yn(x: bool) -> String {
    if x { "yes".into() } else { "no".into() }
}
fn valid(p: Prod, s: &[u8]) -> bool {
    abnf::accepts_bytes(p, s, IRI)
}

// =====================================================================  C02

fn c02_feats(ty: &str, acc: &str, sp: &model::Split) -> Feats {
    vec![
        ("family", FAM.into()),
        ("type", ty.into()),
        ("accessor", acc.into()),
        ("has_scheme", yn(sp.scheme.is_some())),
        ("has_authority", yn(sp.authority.is_some())),
    ]
}

macro_rules! c02_check_opt {
    ($ctx:expr, $ty:expr, $acc:expr, $sp:expr, $got:expr, $want:expr, $prod:expr, $ctor:expr) => {{
        let got: Option<&[u8]> = $got;
        let want: Option<&[u8]> = $want;
        $ctx.call($acc);
        if got != want {
            $ctx.fail("C02.component", c02_feats($ty, $acc, $sp), format!("{}::{}: library {} but RFC decomposition gives {}", $ty, $acc, show_opt(got), show_opt(want)));
        } else if let Some(g) = got {
            if !valid($prod, g) {
                $ctx.fail("C02.component-valid", c02_feats($ty, $acc, $sp), format!("{}::{} returned {} which is not a valid value of its type (model)", $ty, $acc, show(g)));
            }
            let f: fn(&[u8]) -> bool = $ctor;
            if !f(g) {
                $ctx.fail("C02.component-valid", c02_feats($ty, $acc, $sp), format!("{}::{} returned {} which its own checked constructor rejects", $ty, $acc, show(g)));
            }
        }
    }};
}

fn ctor_scheme(x: &[u8]) -> bool { Scheme::new(x).is_ok() }
fn ctor_authority(x: &[u8]) -> bool { std::str::from_utf8(x).map_or(false, |s| Authority::new(s).is_ok()) }
fn ctor_path(x: &[u8]) -> bool { std::str::from_utf8(x).map_or(false, |s| Path::new(s).is_ok()) }
fn ctor_query(x: &[u8]) -> bool { std::str::from_utf8(x).map_or(false, |s| Query::new(s).is_ok()) }
fn ctor_fragment(x: &[u8]) -> bool { std::str::from_utf8(x).map_or(false, |s| Fragment::new(s).is_ok()) }
fn ctor_userinfo(x: &[u8]) -> bool { std::str::from_utf8(x).map_or(false, |s| UserInfo::new(s).is_ok()) }
fn ctor_host(x: &[u8]) -> bool { std::str::from_utf8(x).map_or(false, |s| Host::new(s).is_ok()) }
fn ctor_port(x: &[u8]) -> bool { Port::new(x).is_ok() }
fn ctor_segment(x: &[u8]) -> bool { std::str::from_utf8(x).map_or(false, |s| Segment::new(s).is_ok()) }

fn ref_parts_scheme<'a>(p: &RiRefParts<'a>) -> Option<&'a [u8]> { p.scheme.map(|x| x.as_bytes()) }
fn full_parts_scheme<'a>(p: &RiParts<'a>) -> Option<&'a [u8]> { Some(p.scheme.as_bytes()) }

macro_rules! c02_view {
    ($ctx:expr, $ty:expr, $v:expr, $sp:expr, $text:expr, $scheme_expr:expr, $parts_scheme:expr) => {{
        let v = $v;
        let sp: &model::Split = $sp;
        let sch: Option<&[u8]> = $scheme_expr;
        c02_check_opt!($ctx, $ty, "scheme", sp, sch, sp.scheme, Prod::Scheme, ctor_scheme);
        c02_check_opt!($ctx, $ty, "authority", sp, v.authority().map(|a| a.as_bytes()), sp.authority, Prod::Authority, ctor_authority);
        c02_check_opt!($ctx, $ty, "path", sp, Some(v.path().as_bytes()), Some(sp.path), Prod::Path, ctor_path);
        c02_check_opt!($ctx, $ty, "query", sp, v.query().map(|a| a.as_bytes()), sp.query, Prod::Query, ctor_query);
        c02_check_opt!($ctx, $ty, "fragment", sp, v.fragment().map(|a| a.as_bytes()), sp.fragment, Prod::Fragment, ctor_fragment);
        let p = v.parts();
        let psch: Option<&[u8]> = $parts_scheme(&p);
        c02_check_opt!($ctx, $ty, "parts.scheme", sp, psch, sp.scheme, Prod::Scheme, ctor_scheme);
        c02_check_opt!($ctx, $ty, "parts.authority", sp, p.authority.map(|a| a.as_bytes()), sp.authority, Prod::Authority, ctor_authority);
        c02_check_opt!($ctx, $ty, "parts.path", sp, Some(p.path.as_bytes()), Some(sp.path), Prod::Path, ctor_path);
        c02_check_opt!($ctx, $ty, "parts.query", sp, p.query.map(|a| a.as_bytes()), sp.query, Prod::Query, ctor_query);
        c02_check_opt!($ctx, $ty, "parts.fragment", sp, p.fragment.map(|a| a.as_bytes()), sp.fragment, Prod::Fragment, ctor_fragment);
        // 5.3 recomposition of what the library reported
        let rec = model::recompose(psch, p.authority.map(|a| a.as_bytes()), p.path.as_bytes(), p.query.map(|a| a.as_bytes()), p.fragment.map(|a| a.as_bytes()));
        if rec != $text {
            $ctx.fail("C02.recompose", c02_feats($ty, "parts", sp), format!("{}: recomposing parts() gives {} instead of {}", $ty, show(&rec), show($text)));
        }
    }};
}

pub fn c02(ctx: &mut Ctx, s: &str) {
    let text = b(s);
    let sp = model::split(text);
    let Ok(r) = RiRef::new(s) else {
        ctx.stratum("skipped:rejected-by-library");
        return;
    };
    ctx.stratum(&format!("shape:{}{}{}{}", if sp.scheme.is_some() { "S" } else { "-" }, if sp.authority.is_some() { "A" } else { "-" }, if sp.query.is_some() { "Q" } else { "-" }, if sp.fragment.is_some() { "F" } else { "-" }));
    ctx.stratum(&format!("path:{}", if sp.path.is_empty() { "empty" } else if sp.path.starts_with(b"//") { "slashslash" } else if sp.path.starts_with(b"/") { "absolute" } else { "rootless" }));
    if sp.authority == Some(b"") { ctx.stratum("empty-but-present:authority"); }
    if sp.query == Some(b"") { ctx.stratum("empty-but-present:query"); }
    if sp.fragment == Some(b"") { ctx.stratum("empty-but-present:fragment"); }
    if !s.is_ascii() { ctx.stratum("multibyte"); }
    c02_view!(ctx, "RiRef", r, &sp, text, r.scheme().map(|x| x.as_bytes()), ref_parts_scheme);
    if let Ok(o) = RiRefBuf::new(own(s)) {
        c02_view!(ctx, "RiRefBuf", &o, &sp, text, o.scheme().map(|x| x.as_bytes()), ref_parts_scheme);
    } else {
        ctx.fail("C02.owned", c02_feats("RiRefBuf", "new", &sp), "owned constructor rejects what the borrowed one accepts".into());
    }
    if sp.scheme.is_some() {
        if let Ok(i) = Ri::new(s) {
            c02_view!(ctx, "Ri", i, &sp, text, Some(i.scheme().as_bytes()), full_parts_scheme);
            if let Ok(o) = RiBuf::new(own(s)) {
                c02_view!(ctx, "RiBuf", &o, &sp, text, Some(o.scheme().as_bytes()), full_parts_scheme);
            }
        } else {
            ctx.fail("C02.full", c02_feats("Ri", "new", &sp), "a valid reference with a scheme is rejected as a full URI/IRI".into());
        }
    }
    if sp.authority.is_some() || sp.query.is_some() || sp.fragment.is_some() || sp.scheme.is_some() {
        ctx.nontrivial_cur();
    }
}

// =====================================================================  C03

fn host_kind(h: &[u8]) -> &'static str {
    let w = abnf::widen(h);
    if h.first() == Some(&b'[') {
        if h.get(1).map_or(false, |c| *c == b'v' || *c == b'V') { "ipvfuture" } else { "ipv6" }
    } else if h.is_empty() {
        "empty"
    } else if abnf::ipv4(&w) {
        "ipv4"
    } else if h.iter().any(|c| *c >= 0x80) {
        "non-ascii"
    } else if h.contains(&b'%') {
        "pct"
    } else {
        "reg-name"
    }
}

fn c03_feats(acc: &str, via: &str, a: &model::AuthSplit) -> Feats {
    vec![
        ("family", FAM.into()),
        ("accessor", acc.into()),
        ("via", via.into()),
        ("host_kind", host_kind(a.host).into()),
        ("has_userinfo", yn(a.user_info.is_some())),
        ("has_port", yn(a.port.is_some())),
    ]
}

macro_rules! c03_check {
    ($ctx:expr, $acc:expr, $via:expr, $sp:expr, $got:expr, $want:expr, $prod:expr, $ctor:expr) => {{
        let got: Option<&[u8]> = $got;
        let want: Option<&[u8]> = $want;
        $ctx.call($acc);
        if got != want {
            $ctx.fail("C03.part", c03_feats($acc, $via, $sp), format!("{} ({}): library {} but RFC 3.2 split gives {}", $acc, $via, show_opt(got), show_opt(want)));
        } else if let Some(g) = got {
            let f: fn(&[u8]) -> bool = $ctor;
            if !valid($prod, g) || !f(g) {
                $ctx.fail("C03.part-valid", c03_feats($acc, $via, $sp), format!("{} ({}) returned {} which is not a valid value of its type", $acc, $via, show(g)));
            }
        }
    }};
}

fn c03_view(ctx: &mut Ctx, a: &Authority, via: &str, text: &[u8]) {
    let sp = model::split_authority(text);
    if a.as_bytes() != text {
        ctx.fail("C03.text", c03_feats("as_bytes", via, &sp), format!("authority text {} differs from {}", show(a.as_bytes()), show(text)));
        return;
    }
    // the scanning accessors are run under a guard: an unchecked view may be ill-formed
    let r = crate::ctx::guard(|| {
        (
            a.user_info().map(|x| x.as_bytes().to_vec()),
            a.host().as_bytes().to_vec(),
            a.port().map(|x| x.as_bytes().to_vec()),
            {
                let p = a.parts();
                (p.user_info.map(|x| x.as_bytes().to_vec()), p.host.as_bytes().to_vec(), p.port.map(|x| x.as_bytes().to_vec()))
            },
        )
    });
    let (ui, h, pt, (pui, ph, ppt)) = match r {
        Ok(x) => x,
        Err(m) => {
            ctx.fail("C03.panic", c03_feats("any", via, &sp), format!("authority accessor panicked on {}: {}", show(text), m));
            return;
        }
    };
    c03_check!(ctx, "user_info", via, &sp, ui.as_deref(), sp.user_info, Prod::UserInfo, ctor_userinfo);
    c03_check!(ctx, "host", via, &sp, Some(&h[..]), Some(sp.host), Prod::Host, ctor_host);
    c03_check!(ctx, "port", via, &sp, pt.as_deref(), sp.port, Prod::Port, ctor_port);
    c03_check!(ctx, "parts.user_info", via, &sp, pui.as_deref(), sp.user_info, Prod::UserInfo, ctor_userinfo);
    c03_check!(ctx, "parts.host", via, &sp, Some(&ph[..]), Some(sp.host), Prod::Host, ctor_host);
    c03_check!(ctx, "parts.port", via, &sp, ppt.as_deref(), sp.port, Prod::Port, ctor_port);
    let re = model::render_authority(pui.as_deref(), &ph, ppt.as_deref());
    if re != text {
        ctx.fail("C03.reassemble", c03_feats("parts", via, &sp), format!("reassembling parts() gives {} instead of {}", show(&re), show(text)));
    }
    ctx.stratum(&format!("host:{}", host_kind(sp.host)));
    ctx.stratum(&format!("ui:{}", match sp.user_info { None => "absent", Some(u) if u.is_empty() => "empty", Some(u) if u.contains(&b':') => "with-colon", _ => "plain" }));
    ctx.stratum(&format!("port:{}", match sp.port { None => "absent", Some(p) if p.is_empty() => "empty", _ => "digits" }));
}

pub fn c03(ctx: &mut Ctx, auth: &str) {
    let Ok(a) = Authority::new(auth) else {
        ctx.stratum("skipped:rejected-by-library");
        return;
    };
    c03_view(ctx, a, "standalone", b(auth));
    if let Ok(o) = AuthorityBuf::new(own(auth)) {
        c03_view(ctx, &o, "owned", b(auth));
    }
    for (pre, post) in [("//", ""), ("s://", "/p?q#f"), ("//", "?q"), ("x://", "#f")] {
        let full = format!("{}{}{}", pre, auth, post);
        if let Ok(r) = RiRef::new(&full) {
            match r.authority() {
                Some(a2) => c03_view(ctx, a2, "embedded", b(auth)),
                None => ctx.fail("C03.embedded", vec![("family", FAM.into())], format!("no authority reported for {}", show(b(&full)))),
            }
        }
    }
    ctx.nontrivial_cur();
}

// =====================================================================  C12

fn c12_feats(what: &str, p: &[u8]) -> Feats {
    let (abs, segs) = model::segments(p);
    vec![
        ("family", FAM.into()),
        ("query", what.into()),
        ("absolute", yn(abs)),
        ("first_empty", yn(segs.first().map_or(false, |s| s.is_empty()))),
        ("last_empty", yn(segs.last().map_or(false, |s| s.is_empty()))),
    ]
}

/// `mask` bit i (i < steps): 1 = take from the back at step i.
pub fn c12_interleave(ctx: &mut Ctx, path: &str, mask: u64) {
    let Ok(p) = Path::new(path) else {
        ctx.stratum("skipped:rejected-by-library");
        return;
    };
    let (_abs, want) = model::segments(b(path));
    let n = want.len();
    let mut it = p.segments();
    let mut front: Vec<Vec<u8>> = Vec::new();
    let mut back: Vec<Vec<u8>> = Vec::new();
    let mut extra_none = 0;
    // n real steps + 2 more; bounded: one item more than exist is a violation
    for step in 0..(n + 2) {
        let from_back = (mask >> (step % 64)) & 1 == 1;
        let item = if from_back { ctx.call("segments.next_back"); it.next_back() } else { ctx.call("segments.next"); it.next() };
        match item {
            Some(s) => {
                if front.len() + back.len() >= n {
                    ctx.fail("C12.iteration", c12_feats("segments", b(path)), format!("segments() of {} yields more than its {} segments (mask {:#x})", show(b(path)), n, mask));
                    return;
                }
                if from_back { back.push(s.as_bytes().to_vec()) } else { front.push(s.as_bytes().to_vec()) }
            }
            None => extra_none += 1,
        }
    }
    let _ = extra_none;
    let mut got = front.clone();
    got.extend(back.iter().rev().cloned());
    let wantv: Vec<Vec<u8>> = want.iter().map(|x| x.to_vec()).collect();
    if got != wantv {
        ctx.fail("C12.iteration", c12_feats("segments", b(path)), format!("segments() of {} under mask {:#x}: front {:?} + reversed back {:?} != '/'-split {:?}", show(b(path)), mask, front.iter().map(|x| String::from_utf8_lossy(x).to_string()).collect::<Vec<_>>(), back.iter().map(|x| String::from_utf8_lossy(x).to_string()).collect::<Vec<_>>(), want.iter().map(|x| String::from_utf8_lossy(x).to_string()).collect::<Vec<_>>()));
    }
    ctx.stratum(&format!("segs:{}", if n > 12 { "13+".to_string() } else { n.to_string() }));
    if n >= 2 { ctx.nontrivial_cur(); }
}

/// Iterator adaptors with their own specialisations (nth, nth_back, skip, last, count, rev) mixed with
/// next/next_back, against a deque of the '/'-split.
/// Runs one adaptor program on a double-ended segment iterator against a deque of the expected
/// items.  Returns a description of the first disagreement.
fn adaptor_program<'x, I: DoubleEndedIterator<Item = &'x Segment>>(mut it: I, want: &[Vec<u8>], mask: u64) -> Result<(), String> {
    let mut dq: std::collections::VecDeque<Vec<u8>> = want.iter().cloned().collect();
    let mut m = mask;
    let steps = ((mask >> 56) % 7) as usize;
    let mut log: Vec<String> = Vec::new();
    let lossy = |x: &Option<Vec<u8>>| x.as_ref().map(|v| String::from_utf8_lossy(v).to_string());
    let by = |s: &'x Segment| s.as_bytes().to_vec();
    for step in 0..steps {
        let op = m & 3;
        let k = ((m >> 2) & 3) as usize;
        m >>= 4;
        // now and then an index at the far end of usize (index arithmetic must not wrap)
        let huge = (mask >> (40 + step)) & 7 == 0;
        let (name, got, exp): (String, Option<Vec<u8>>, Option<Vec<u8>>) = match op {
            2 if huge => { dq.clear(); (format!("nth(usize::MAX - {})", k), it.nth(usize::MAX - k).map(by), None) }
            3 if huge => { dq.clear(); (format!("nth_back(usize::MAX - {})", k), it.nth_back(usize::MAX - k).map(by), None) }
            0 => ("next()".into(), it.next().map(by), dq.pop_front()),
            1 => ("next_back()".into(), it.next_back().map(by), dq.pop_back()),
            2 => {
                for _ in 0..k { dq.pop_front(); }
                (format!("nth({})", k), it.nth(k).map(by), dq.pop_front())
            }
            _ => {
                for _ in 0..k { dq.pop_back(); }
                (format!("nth_back({})", k), it.nth_back(k).map(by), dq.pop_back())
            }
        };
        log.push(name);
        if got != exp {
            return Err(format!("after {}: library {:?}, model {:?}", log.join("."), lossy(&got), lossy(&exp)));
        }
    }
    let rest: Vec<Vec<u8>> = dq.iter().cloned().collect();
    let k = ((mask >> 52) & 3) as usize;
    let kth: Option<Vec<u8>> = rest.get(k).cloned();
    let kth_back: Option<Vec<u8>> = if rest.len() > k { rest.get(rest.len() - 1 - k).cloned() } else { None };
    let (name, ok) = match (mask >> 59) & 31 {
        0 => ("collect()", it.map(by).collect::<Vec<_>>() == rest),
        1 => ("last()", it.last().map(by) == rest.last().cloned()),
        2 => ("count()", it.count() == rest.len()),
        3 => ("rev().collect()", it.rev().map(by).collect::<Vec<_>>() == rest.iter().rev().cloned().collect::<Vec<_>>()),
        4 => ("skip(k).collect()", it.skip(k).map(by).collect::<Vec<_>>() == rest.iter().skip(k).cloned().collect::<Vec<_>>()),
        5 => ("step_by(k+1).collect()", it.step_by(k + 1).map(by).collect::<Vec<_>>() == rest.iter().step_by(k + 1).cloned().collect::<Vec<_>>()),
        6 => ("rev().skip(k).collect()", it.rev().skip(k).map(by).collect::<Vec<_>>() == rest.iter().rev().skip(k).cloned().collect::<Vec<_>>()),
        7 => ("fold", it.fold(0usize, |a, s| a + s.as_bytes().len() + 1) == rest.iter().map(|s| s.len() + 1).sum::<usize>()),
        8 => ("rfold", it.rfold(Vec::new(), |mut a: Vec<Vec<u8>>, s| { a.push(s.as_bytes().to_vec()); a }) == rest.iter().rev().cloned().collect::<Vec<_>>()),
        9 => ("find(k-th)", { let w = kth.clone(); it.find(|s| Some(s.as_bytes()) == w.as_deref()).map(by) == kth }),
        10 => ("rfind(k-th from the back)", { let w = kth_back.clone(); it.rfind(|s| Some(s.as_bytes()) == w.as_deref()).map(by) == kth_back }),
        11 => ("position(k-th)", { let w = kth.clone(); it.position(|s| Some(s.as_bytes()) == w.as_deref()) == rest.iter().position(|s| Some(s) == w.as_ref()) }),
        12 => ("rev().nth(k)", it.rev().nth(k).map(by) == kth_back),
        13 => ("all", { let n = rest.len(); let mut seen = 0usize; let r = it.all(|_| { seen += 1; true }); r && seen == n }),
        14 => ("take(k).collect() then the rest", { let a: Vec<Vec<u8>> = it.by_ref().take(k).map(by).collect(); let b2: Vec<Vec<u8>> = it.map(by).collect(); a == rest.iter().take(k).cloned().collect::<Vec<_>>() && b2 == rest.iter().skip(k).cloned().collect::<Vec<_>>() }),
        15 => ("peekable", { let mut p = it.peekable(); let first = p.peek().map(|s| s.as_bytes().to_vec()); let all: Vec<Vec<u8>> = p.map(by).collect(); first == rest.first().cloned() && all == rest }),
        16 => ("skip_while(first k)", { let mut n = 0; it.skip_while(|_| { n += 1; n <= k }).map(by).collect::<Vec<_>>() == rest.iter().skip(k).cloned().collect::<Vec<_>>() }),
        17 => ("take_while", { let mut n = 0; it.take_while(|_| { n += 1; n <= k }).map(by).collect::<Vec<_>>() == rest.iter().take(k).cloned().collect::<Vec<_>>() }),
        18 => ("partition", { let (a, b2): (Vec<&Segment>, Vec<&Segment>) = it.partition(|s| s.as_bytes().len() % 2 == 0); let (x, y): (Vec<&Vec<u8>>, Vec<&Vec<u8>>) = rest.iter().partition(|s| s.len() % 2 == 0); a.len() == x.len() && b2.len() == y.len() && a.iter().zip(x.iter()).all(|(p, q)| p.as_bytes() == &q[..]) && b2.iter().zip(y.iter()).all(|(p, q)| p.as_bytes() == &q[..]) }),
        19 => ("max_by_key(len) / min_by_key(len)", { let v: Vec<&Segment> = it.collect(); let mx = v.iter().max_by_key(|s| s.as_bytes().len()).map(|s| s.as_bytes().len()); mx == rest.iter().map(|s| s.len()).max() && v.len() == rest.len() }),
        20 => ("max_by_key(len) direct", it.max_by_key(|s| s.as_bytes().len()).map(|s| s.as_bytes().len()) == rest.iter().map(|s| s.len()).max()),
        21 => ("min_by_key(len) direct", it.min_by_key(|s| s.as_bytes().len()).map(|s| s.as_bytes().len()) == rest.iter().map(|s| s.len()).min()),
        22 => ("enumerate().last()", it.enumerate().last().map(|(i, s)| (i, s.as_bytes().to_vec())) == rest.iter().cloned().enumerate().last()),
        23 => ("for_each", { let mut v: Vec<Vec<u8>> = Vec::new(); it.for_each(|s| v.push(s.as_bytes().to_vec())); v == rest }),
        24 => ("rev().for_each", { let mut v: Vec<Vec<u8>> = Vec::new(); it.rev().for_each(|s| v.push(s.as_bytes().to_vec())); v.reverse(); v == rest }),
        25 => ("map(len).sum()", it.map(|s| s.as_bytes().len()).sum::<usize>() == rest.iter().map(|s| s.len()).sum::<usize>()),
        26 => ("fuse: two more next() after the end", { let mut v: Vec<Vec<u8>> = Vec::new(); while let Some(s) = it.next() { v.push(s.as_bytes().to_vec()); if v.len() > rest.len() + 2 { break; } } let a = it.next().is_none(); let b2 = it.next_back().is_none(); v == rest && a && b2 }),
        27 => ("alternate ends until empty", { let mut fr: Vec<Vec<u8>> = Vec::new(); let mut bk: Vec<Vec<u8>> = Vec::new(); loop { match it.next() { Some(s) => fr.push(s.as_bytes().to_vec()), None => break } match it.next_back() { Some(s) => bk.push(s.as_bytes().to_vec()), None => break } if fr.len() + bk.len() > rest.len() + 2 { break; } } bk.reverse(); fr.extend(bk); fr == rest }),
        28 => ("nth(len)", { let n = rest.len(); it.nth(n).is_none() && it.next().is_none() && it.next_back().is_none() }),
        29 => ("nth_back(len)", { let n = rest.len(); it.nth_back(n).is_none() && it.next().is_none() && it.next_back().is_none() }),
        30 => ("nth(len+k) then next_back / skip(usize::MAX) / step_by(usize::MAX)", {
            match k {
                0 => it.nth(rest.len()).is_none() && it.next_back().is_none(),
                1 => it.skip(usize::MAX).next().is_none(),
                2 => it.step_by(usize::MAX).map(by).collect::<Vec<_>>() == rest.iter().take(1).cloned().collect::<Vec<_>>(),
                _ => it.take(usize::MAX).map(by).collect::<Vec<_>>() == rest,
            }
        }),
        _ => ("nth_back(len+k) then next / rev().skip(usize::MAX) / nth(usize::MAX) then len", {
            match k {
                0 => it.nth_back(rest.len()).is_none() && it.next().is_none(),
                1 => it.rev().skip(usize::MAX).next().is_none(),
                2 => it.nth(usize::MAX).is_none() && it.next().is_none() && it.next_back().is_none(),
                _ => it.nth_back(usize::MAX).is_none() && it.next().is_none() && it.next_back().is_none(),
            }
        }),
    };
    if ok { Ok(()) } else { Err(format!("after {} then {} (k={}): differs from the model (remaining {} items)", log.join("."), name, k, rest.len())) }
}

/// Iterator adaptors with their own specialisations mixed with next/next_back, against a deque of the '/'-split.
pub fn c12_adaptors(ctx: &mut Ctx, path: &str, mask: u64) {
    let Ok(p) = Path::new(path) else {
        return;
    };
    let (_abs, want) = model::segments(b(path));
    let wantv: Vec<Vec<u8>> = want.iter().map(|x| x.to_vec()).collect();
    ctx.call("segments.adaptor");
    match crate::ctx::guard(|| adaptor_program(p.segments(), &wantv, mask)) {
        Ok(Ok(())) => {}
        Ok(Err(e)) => ctx.fail("C12.iteration", c12_feats("adaptors", b(path)), format!("segments() of {} {} (program {:#x})", show(b(path)), e, mask)),
        Err(m) => ctx.fail("C12.iteration", c12_feats("adaptors", b(path)), format!("segments() of {} under adaptor program {:#x} panicked: {}", show(b(path)), mask, m)),
    }
    // IntoIterator for &Path is the same iterator
    match crate::ctx::guard(|| adaptor_program(p.into_iter(), &wantv, mask.rotate_left(9))) {
        Ok(Ok(())) => {}
        Ok(Err(e)) => ctx.fail("C12.iteration", c12_feats("adaptors", b(path)), format!("(&path).into_iter() of {} {} (program {:#x})", show(b(path)), e, mask.rotate_left(9))),
        Err(m) => ctx.fail("C12.iteration", c12_feats("adaptors", b(path)), format!("(&path).into_iter() of {} panicked: {}", show(b(path)), m)),
    }
    ctx.stratum("adaptors");
}

pub fn c12_queries(ctx: &mut Ctx, path: &str) {
    let Ok(p) = Path::new(path) else {
        ctx.stratum("skipped:rejected-by-library");
        return;
    };
    let t = b(path);
    let (abs, segs) = model::segments(t);
    let n = segs.len();
    macro_rules! chk {
        ($what:expr, $got:expr, $want:expr) => {{
            ctx.call($what);
            let g = $got;
            let w = $want;
            if g != w {
                ctx.fail("C12.query", c12_feats($what, t), format!("{} of {}: library {:?}, '/'-split model {:?}", $what, show(t), g, w));
            }
        }};
    }
    chk!("segment_count", p.segment_count(), n);
    chk!("is_empty", p.is_empty(), n == 0);
    chk!("is_absolute", p.is_absolute(), abs);
    chk!("is_relative", p.is_relative(), !abs);
    chk!("first", p.first().map(|s| s.as_bytes().to_vec()), segs.first().map(|s| s.to_vec()));
    chk!("last", p.last().map(|s| s.as_bytes().to_vec()), segs.last().map(|s| s.to_vec()));
    chk!("file_name", p.file_name().map(|s| s.as_bytes().to_vec()), segs.last().filter(|s| !s.is_empty()).map(|s| s.to_vec()));
    // directory: text up to and including the last '/', or empty
    let dir: Vec<u8> = match t.iter().rposition(|c| *c == b'/') { Some(i) => t[..=i].to_vec(), None => Vec::new() };
    chk!("directory", p.directory().as_bytes().to_vec(), dir);
    // parent: path without its final segment (None when there is none).  Expected segments: all but last.
    let parent = p.parent();
    ctx.call("parent");
    if n == 0 {
        if parent.is_some() {
            ctx.fail("C12.query", c12_feats("parent", t), format!("parent of {} is {:?} but the path has no segment", show(t), parent.map(|x| x.as_str().to_string())));
        }
    } else {
        match parent {
            None => {
                // documented: a relative path with a single segment has no parent text ("a" -> None)
                if !(n == 1 && !abs) {
                    ctx.fail("C12.query", c12_feats("parent", t), format!("parent of {} is None", show(t)));
                }
            }
            Some(pp) => {
                let (pabs, psegs) = model::segments(pp.as_bytes());
                let want = &segs[..n - 1];
                // the documented "/./" spelling of the parent of "//x": segments [".", ""], i.e. shielded [""]
                let ok = pabs == abs && (psegs == want || model::segs_match_shielded(&psegs, want));
                if !ok {
                    ctx.fail("C12.query", c12_feats("parent", t), format!("parent of {} is {} but the model expects segments {:?}", show(t), show(pp.as_bytes()), want.iter().map(|x| String::from_utf8_lossy(x).to_string()).collect::<Vec<_>>()));
                }
            }
        }
    }
    let poe = p.parent_or_empty();
    ctx.call("parent_or_empty");
    {
        let (pabs, psegs) = model::segments(poe.as_bytes());
        let want: &[&[u8]] = if n == 0 { &[] } else { &segs[..n - 1] };
        if !(pabs == abs && (psegs == want || model::segs_match_shielded(&psegs, want))) {
            ctx.fail("C12.query", c12_feats("parent_or_empty", t), format!("parent_or_empty of {} is {}", show(t), show(poe.as_bytes())));
        }
    }
    let nn = model::norm_seq(abs, &segs).len();
    chk!("normalized_segments.len", p.normalized_segments().len(), nn);
    // IntoIterator for &Path is the same iterator; rev() is the reversed '/'-split
    {
        let via_into: Vec<Vec<u8>> = p.into_iter().map(|s| s.as_bytes().to_vec()).collect();
        let wantv: Vec<Vec<u8>> = segs.iter().map(|x| x.to_vec()).collect();
        ctx.call("IntoIterator");
        if via_into != wantv {
            ctx.fail("C12.iteration", c12_feats("into_iter", t), format!("(&path).into_iter() of {} yields {} segments, the '/'-split has {}", show(t), via_into.len(), wantv.len()));
        }
        let rev: Vec<Vec<u8>> = p.segments().rev().map(|s| s.as_bytes().to_vec()).collect();
        let mut wr = wantv.clone();
        wr.reverse();
        if rev != wr {
            ctx.fail("C12.iteration", c12_feats("rev", t), format!("segments().rev() of {} differs from the reversed '/'-split", show(t)));
        }
    }
    // joining reproduces the path
    let joined = model::render_segments(p.is_absolute(), &p.segments().map(|s| s.as_bytes()).collect::<Vec<_>>());
    if joined != t && !(t == b"" || t == b"/") {
        ctx.fail("C12.join", c12_feats("segments", t), format!("joining segments() of {} gives {}", show(t), show(&joined)));
    }
    if n >= 1 { ctx.nontrivial_cur(); }
}

// =====================================================================  C20

macro_rules! noalloc {
    ($ctx:expr, $what:expr, $e:expr) => {{
        let a0 = crate::alloc::count();
        let v = $e;
        let d = crate::alloc::count() - a0;
        $ctx.call($what);
        if d != 0 {
            $ctx.fail("C20.alloc", vec![("family", FAM.into()), ("call", $what.into())], format!("{} performed {} heap allocation(s)", $what, d));
        }
        v
    }};
}

fn inside(outer: &[u8], inner: &[u8]) -> bool {
    let o = outer.as_ptr() as usize;
    let i = inner.as_ptr() as usize;
    i >= o && i + inner.len() <= o + outer.len()
}

fn c20_slice(ctx: &mut Ctx, what: &'static str, input: &[u8], got: &[u8], constants: &[&[u8]]) {
    if inside(input, got) {
        return;
    }
    // a documented constant: recognised by content *and* by lying outside the input
    if constants.iter().any(|c| *c == got) {
        ctx.stratum("constant-returned");
        return;
    }
    ctx.fail("C20.subslice", vec![("family", FAM.into()), ("call", what.into())], format!("{} returned {} which is not a sub-slice of the input (and not a documented constant)", what, show(got)));
}

/// Parsing every borrowed type (success and failure) allocates nothing and the
/// value occupies exactly the input.
pub fn c20_new(ctx: &mut Ctx, s: &str) {
    macro_rules! one {
        ($name:literal, $T:ty, $arg:expr) => {{
            let r = noalloc!(ctx, concat!($name, "::new"), <$T>::new($arg));
            if let Ok(v) = r {
                let vb = v.as_bytes();
                if vb.as_ptr() != s.as_ptr() || vb.len() != s.len() {
                    ctx.fail("C20.occupies", vec![("family", FAM.into()), ("call", $name.into())], format!("{}::new: the parsed value does not occupy exactly the caller's input", $name));
                }
                ctx.stratum(concat!("new-ok:", $name));
            } else {
                ctx.stratum(concat!("new-err:", $name));
            }
        }};
    }
    one!("Ri", Ri, s);
    one!("RiRef", RiRef, s);
    one!("Scheme", Scheme, s.as_bytes());
    one!("Authority", Authority, s);
    one!("UserInfo", UserInfo, s);
    one!("Host", Host, s);
    one!("Port", Port, s.as_bytes());
    one!("Path", Path, s);
    one!("Segment", Segment, s);
    one!("Query", Query, s);
    one!("Fragment", Fragment, s);
}

/// Every read-only accessor of a valid reference: no allocation, sub-slices, order.
pub fn c20_ref(ctx: &mut Ctx, s: &str) {
    let input = b(s);
    let Ok(r) = noalloc!(ctx, "RiRef::new", RiRef::new(s)) else {
        ctx.stratum("skipped:rejected-by-library");
        return;
    };
    let consts: &[&[u8]] = &[b"", b"/", b"/./"];
    let sch = noalloc!(ctx, "scheme", r.scheme());
    let au = noalloc!(ctx, "authority", r.authority());
    let pa = noalloc!(ctx, "path", r.path());
    let qu = noalloc!(ctx, "query", r.query());
    let fr = noalloc!(ctx, "fragment", r.fragment());
    let parts = noalloc!(ctx, "parts", r.parts());
    let mut order: Vec<(&'static str, &[u8])> = Vec::new();
    if let Some(x) = sch { c20_slice(ctx, "scheme", input, x.as_bytes(), &[]); order.push(("scheme", x.as_bytes())); }
    if let Some(x) = au { c20_slice(ctx, "authority", input, x.as_bytes(), &[]); order.push(("authority", x.as_bytes())); }
    c20_slice(ctx, "path", input, pa.as_bytes(), &[]);
    order.push(("path", pa.as_bytes()));
    if let Some(x) = qu { c20_slice(ctx, "query", input, x.as_bytes(), &[]); order.push(("query", x.as_bytes())); }
    if let Some(x) = fr { c20_slice(ctx, "fragment", input, x.as_bytes(), &[]); order.push(("fragment", x.as_bytes())); }
    for w in order.windows(2) {
        let (an, a) = w[0];
        let (bn, bb) = w[1];
        if inside(input, a) && inside(input, bb) && (a.as_ptr() as usize + a.len() > bb.as_ptr() as usize) {
            ctx.fail("C20.order", vec![("family", FAM.into()), ("call", an.into())], format!("{} and {} overlap or are out of order inside the input", an, bn));
        }
    }
    if let Some(x) = parts.scheme { c20_slice(ctx, "parts.scheme", input, x.as_bytes(), &[]); }
    if let Some(x) = parts.authority { c20_slice(ctx, "parts.authority", input, x.as_bytes(), &[]); }
    c20_slice(ctx, "parts.path", input, parts.path.as_bytes(), &[]);
    if let Some(x) = parts.query { c20_slice(ctx, "parts.query", input, x.as_bytes(), &[]); }
    if let Some(x) = parts.fragment { c20_slice(ctx, "parts.fragment", input, x.as_bytes(), &[]); }
    if let Some(a) = au {
        let ui = noalloc!(ctx, "authority.user_info", a.user_info());
        let h = noalloc!(ctx, "authority.host", a.host());
        let pt = noalloc!(ctx, "authority.port", a.port());
        let ap = noalloc!(ctx, "authority.parts", a.parts());
        if let Some(x) = ui { c20_slice(ctx, "authority.user_info", input, x.as_bytes(), &[]); }
        c20_slice(ctx, "authority.host", input, h.as_bytes(), &[]);
        if let Some(x) = pt { c20_slice(ctx, "authority.port", input, x.as_bytes(), &[]); }
        if let Some(x) = ap.user_info { c20_slice(ctx, "authority.parts.user_info", input, x.as_bytes(), &[]); }
        c20_slice(ctx, "authority.parts.host", input, ap.host.as_bytes(), &[]);
        if let Some(x) = ap.port { c20_slice(ctx, "authority.parts.port", input, x.as_bytes(), &[]); }
    }
    // path reads
    let nseg = {
        let a0 = crate::alloc::count();
        let mut n = 0usize;
        let mut bad = false;
        let mut it = pa.segments();
        let limit = pa.as_bytes().len() + 2;
        while let Some(sg) = it.next() {
            n += 1;
            if !inside(input, sg.as_bytes()) { bad = true; }
            if n > limit { break; }
        }
        let mut it2 = pa.segments();
        while let Some(sg) = it2.next_back() {
            if !inside(input, sg.as_bytes()) { bad = true; }
            n += 1;
            if n > 2 * limit { break; }
        }
        let d = crate::alloc::count() - a0;
        ctx.call("path.segments");
        if d != 0 {
            ctx.fail("C20.alloc", vec![("family", FAM.into()), ("call", "path.segments".into())], format!("iterating segments() performed {} heap allocation(s)", d));
        }
        if bad {
            ctx.fail("C20.subslice", vec![("family", FAM.into()), ("call", "path.segments".into())], "segments() yielded a segment outside the input".into());
        }
        n / 2
    };
    if let Some(x) = noalloc!(ctx, "path.first", pa.first()) { c20_slice(ctx, "path.first", input, x.as_bytes(), &[]); }
    if let Some(x) = noalloc!(ctx, "path.last", pa.last()) { c20_slice(ctx, "path.last", input, x.as_bytes(), &[]); }
    if let Some(x) = noalloc!(ctx, "path.file_name", pa.file_name()) { c20_slice(ctx, "path.file_name", input, x.as_bytes(), &[]); }
    let d = noalloc!(ctx, "path.directory", pa.directory());
    c20_slice(ctx, "path.directory", input, d.as_bytes(), consts);
    if let Some(x) = noalloc!(ctx, "path.parent", pa.parent()) { c20_slice(ctx, "path.parent", input, x.as_bytes(), consts); }
    let x = noalloc!(ctx, "path.parent_or_empty", pa.parent_or_empty());
    c20_slice(ctx, "path.parent_or_empty", input, x.as_bytes(), consts);
    let bs = noalloc!(ctx, "base", r.base());
    c20_slice(ctx, "base", input, bs.as_bytes(), &[]);
    noalloc!(ctx, "path.is_empty/absolute/count", (pa.is_empty(), pa.is_absolute(), pa.segment_count()));
    if let Some(i) = noalloc!(ctx, "as_iri/as_uri (full)", r.as_full()) {
        let isch = noalloc!(ctx, "Ri.scheme", i.scheme());
        c20_slice(ctx, "Ri.scheme", input, isch.as_bytes(), &[]);
        let ip = noalloc!(ctx, "Ri.parts", i.parts());
        c20_slice(ctx, "Ri.parts.path", input, ip.path.as_bytes(), &[]);
        let ib = noalloc!(ctx, "Ri.base", i.base());
        c20_slice(ctx, "Ri.base", input, ib.as_bytes(), &[]);
    }
    ctx.stratum(&format!("segs:{}", if nseg > 16 { "17+" } else if nseg > 0 { "1-16" } else { "0" }));
    ctx.stratum(if input.len() > 60000 { "len:64k+" } else if input.len() > 512 { "len:513+" } else { "len:small" });
    if !s.is_ascii() { ctx.stratum("multibyte"); }
    ctx.nontrivial_cur();
}

// =====================================================================  C07 / C08 shared helpers

fn octet_class(texts: &[&[u8]]) -> &'static str {
    for t in texts {
        if std::str::from_utf8(&model::pct_decode(t)).is_err() {
            return "non-utf8";
        }
    }
    "utf8"
}

/// Deterministic hasher (FNV-1a 64) so that hash values are comparable across runs.
pub struct Fnv(u64);
impl Fnv {
    pub fn new() -> Self { Fnv(0xcbf29ce484222325) }
}
impl std::hash::Hasher for Fnv {
    fn finish(&self) -> u64 { self.0 }
    fn write(&mut self, bytes: &[u8]) {
        for x in bytes {
            self.0 ^= *x as u64;
            self.0 = self.0.wrapping_mul(0x100000001b3);
        }
        // separate consecutive writes
        self.0 = self.0.rotate_left(5) ^ 0x9E3779B97F4A7C15;
    }
}
fn fnv<T: std::hash::Hash + ?Sized>(v: &T) -> u64 {
    use std::hash::Hasher;
    let mut h = Fnv::new();
    v.hash(&mut h);
    h.finish()
}
fn sip<T: std::hash::Hash + ?Sized>(v: &T) -> u64 {
    use std::hash::Hasher;
    let mut h = std::collections::hash_map::DefaultHasher::new();
    v.hash(&mut h);
    h.finish()
}

macro_rules! eq_probe {
    ($ctx:expr, $clause:expr, $feats:expr, $want:expr, $name:expr, $e:expr) => {{
        $ctx.call($name);
        match crate::ctx::guard(|| $e) {
            Ok(got) => {
                if got != $want {
                    let mut f: Feats = $feats;
                    f.push(("impl", $name.into()));
                    $ctx.fail($clause, f, format!("{} is {} but the documented equivalence says {}", $name, got, $want));
                }
            }
            Err(m) => {
                let mut f: Feats = $feats;
                f.push(("impl", $name.into()));
                $ctx.fail("C07.panic", f, format!("{} panicked: {}", $name, m));
            }
        }
    }};
}

// =====================================================================  C07

fn c07_feats(ty: &str, want: bool, texts: &[&[u8]]) -> Feats {
    vec![("family", FAM.into()), ("type", ty.into()), ("expected", if want { "equal".into() } else { "unequal".into() }), ("octets", octet_class(texts).into())]
}

pub fn c07_ref_pair(ctx: &mut Ctx, a: &str, bb: &str) {
    let (Ok(x), Ok(y)) = (RiRef::new(a), RiRef::new(bb)) else {
        ctx.stratum("skipped:rejected-by-library");
        return;
    };
    let want = model::eq_ref(b(a), b(bb));
    let texts: [&[u8]; 2] = [b(a), b(bb)];
    ctx.stratum(if want { if a == bb { "pair:identical" } else { "pair:equal-respelled" } } else { "pair:unequal" });
    ctx.stratum(&format!("octets:{}", octet_class(&texts)));
    let f = || c07_feats("RiRef", want, &texts);
    eq_probe!(ctx, "C07.eq", f(), want, "RiRef==RiRef", x == y);
    eq_probe!(ctx, "C07.eq", f(), want, "RiRef==RiRef (sym)", y == x);
    eq_probe!(ctx, "C07.eq", f(), !want, "RiRef!=RiRef", x != y);
    eq_probe!(ctx, "C07.eq", f(), true, "RiRef==self", x == x);
    eq_probe!(ctx, "C07.eq", f(), want, "RiRef==&RiRef", *x == y);
    let xo = x.to_owned();
    let yo = y.to_owned();
    eq_probe!(ctx, "C07.eq", f(), want, "RiRefBuf==RiRefBuf", xo == yo);
    eq_probe!(ctx, "C07.eq", f(), !want, "RiRefBuf!=RiRefBuf", xo != yo);
    eq_probe!(ctx, "C07.eq", f(), !want, "RiRef!=RiRefBuf", *x != yo);
    eq_probe!(ctx, "C07.eq", f(), !want, "RiRefBuf!=RiRef", xo != *y);
    eq_probe!(ctx, "C07.eq", f(), want, "RiRef==RiRefBuf", *x == yo);
    eq_probe!(ctx, "C07.eq", f(), want, "RiRefBuf==RiRef", xo == *y);
    eq_probe!(ctx, "C07.eq", f(), want, "RiRefBuf==&RiRef", xo == y);
    if let (Some(xi), Some(yi)) = (x.as_full(), y.as_full()) {
        ctx.stratum("pair:both-full");
        let f = || c07_feats("Ri", want, &texts);
        let xio = xi.to_owned();
        let yio = yi.to_owned();
        eq_probe!(ctx, "C07.eq", f(), want, "Ri==Ri", xi == yi);
        eq_probe!(ctx, "C07.eq", f(), want, "Ri==Ri (sym)", yi == xi);
        eq_probe!(ctx, "C07.eq", f(), !want, "Ri!=Ri", xi != yi);
        eq_probe!(ctx, "C07.eq", f(), !want, "Ri!=Ri (sym)", yi != xi);
        eq_probe!(ctx, "C07.eq", f(), !want, "RiBuf!=RiBuf", xio != yio);
        eq_probe!(ctx, "C07.eq", f(), !want, "Ri!=RiRef", *xi != *y);
        eq_probe!(ctx, "C07.eq", f(), !want, "RiRef!=Ri", *x != *yi);
        eq_probe!(ctx, "C07.eq", f(), !want, "RiBuf!=Ri", xio != *yi);
        eq_probe!(ctx, "C07.eq", f(), want, "Ri==&Ri", *xi == yi);
        eq_probe!(ctx, "C07.eq", f(), want, "Ri==RiBuf", *xi == yio);
        eq_probe!(ctx, "C07.eq", f(), want, "Ri==RiRef", *xi == *y);
        eq_probe!(ctx, "C07.eq", f(), want, "Ri==&RiRef", *xi == y);
        eq_probe!(ctx, "C07.eq", f(), want, "Ri==RiRefBuf", *xi == yo);
        eq_probe!(ctx, "C07.eq", f(), want, "RiRef==Ri", *x == *yi);
        eq_probe!(ctx, "C07.eq", f(), want, "RiRef==&Ri", *x == yi);
        eq_probe!(ctx, "C07.eq", f(), want, "RiRef==RiBuf", *x == yio);
        eq_probe!(ctx, "C07.eq", f(), want, "RiBuf==RiBuf", xio == yio);
        eq_probe!(ctx, "C07.eq", f(), want, "RiBuf==Ri", xio == *yi);
        eq_probe!(ctx, "C07.eq", f(), want, "RiBuf==&Ri", xio == yi);
        eq_probe!(ctx, "C07.eq", f(), want, "RiBuf==RiRef", xio == *y);
        eq_probe!(ctx, "C07.eq", f(), want, "RiBuf==&RiRef", xio == y);
        eq_probe!(ctx, "C07.eq", f(), want, "RiBuf==RiRefBuf", xio == yo);
        eq_probe!(ctx, "C07.eq", f(), want, "RiRefBuf==Ri", xo == *yi);
        eq_probe!(ctx, "C07.eq", f(), want, "RiRefBuf==&Ri", xo == yi);
        eq_probe!(ctx, "C07.eq", f(), want, "RiRefBuf==RiBuf", xo == yio);
    }
    if a != bb { ctx.nontrivial_cur(); }
}

macro_rules! c07_comp_typed {
    ($ctx:expr, $name:literal, $T:ty, $a:expr, $b:expr, $want:expr) => {{
        if let (Ok(x), Ok(y)) = (<$T>::new($a), <$T>::new($b)) {
            let texts: [&[u8]; 2] = [x.as_bytes(), y.as_bytes()];
            let want: bool = $want;
            let f = || c07_feats($name, want, &texts);
            $ctx.stratum(concat!("comp:", $name));
            $ctx.stratum(&format!("octets:{}", octet_class(&texts)));
            eq_probe!($ctx, "C07.eq", f(), want, concat!($name, "=="), x == y);
            eq_probe!($ctx, "C07.eq", f(), want, concat!($name, "== (sym)"), y == x);
            eq_probe!($ctx, "C07.eq", f(), !want, concat!($name, "!="), x != y);
            eq_probe!($ctx, "C07.eq", f(), true, concat!($name, "==self"), x == x);
            let xo = x.to_owned();
            let yo = y.to_owned();
            eq_probe!($ctx, "C07.eq", f(), want, concat!($name, "Buf==Buf"), xo == yo);
            eq_probe!($ctx, "C07.eq", f(), !want, concat!($name, "Buf!=Buf"), xo != yo);
            eq_probe!($ctx, "C07.eq", f(), want, concat!($name, "Buf==borrowed"), xo == *y);
            eq_probe!($ctx, "C07.eq", f(), want, concat!($name, "Buf==&borrowed"), xo == y);
        } else {
            $ctx.stratum("skipped:rejected-by-library");
        }
    }};
}

/// kind: 0 authority, 1 path, 2 userinfo, 3 host, 4 segment, 5 query, 6 fragment, 7 scheme, 8 port
pub fn c07_comp_pair(ctx: &mut Ctx, a: &str, bb: &str, kind: u64) {
    let (x, y) = (b(a), b(bb));
    match kind {
        0 => c07_comp_typed!(ctx, "Authority", Authority, a, bb, model::eq_authority(x, y)),
        1 => {
            if let (Ok(p), Ok(q)) = (Path::new(a), Path::new(bb)) {
                let want = model::eq_path(x, y);
                let texts: [&[u8]; 2] = [x, y];
                let f = || c07_feats("Path", want, &texts);
                ctx.stratum("comp:Path");
                eq_probe!(ctx, "C07.eq", f(), want, "Path==", p == q);
                eq_probe!(ctx, "C07.eq", f(), want, "Path== (sym)", q == p);
                eq_probe!(ctx, "C07.eq", f(), true, "Path==self", p == p);
            }
        }
        2 => c07_comp_typed!(ctx, "UserInfo", UserInfo, a, bb, model::eq_component(x, y)),
        3 => c07_comp_typed!(ctx, "Host", Host, a, bb, model::eq_component(x, y)),
        4 => c07_comp_typed!(ctx, "Segment", Segment, a, bb, model::eq_component(x, y)),
        5 => c07_comp_typed!(ctx, "Query", Query, a, bb, model::eq_component(x, y)),
        6 => c07_comp_typed!(ctx, "Fragment", Fragment, a, bb, model::eq_component(x, y)),
        7 => c07_comp_typed!(ctx, "Scheme", Scheme, x, y, x == y),
        _ => c07_comp_typed!(ctx, "Port", Port, x, y, x == y),
    }
    if a != bb { ctx.nontrivial_cur(); }
}

/// Transitivity on the library's own answers.
pub fn c07_triple(ctx: &mut Ctx, a: &str, bb: &str, c: &str) {
    let (Ok(x), Ok(y), Ok(z)) = (RiRef::new(a), RiRef::new(bb), RiRef::new(c)) else { return };
    let texts: [&[u8]; 3] = [b(a), b(bb), b(c)];
    let r = crate::ctx::guard(|| (x == y, y == z, x == z));
    ctx.call("triple");
    match r {
        Ok((xy, yz, xz)) => {
            if xy && yz && !xz {
                ctx.fail("C07.transitive", c07_feats("RiRef", true, &texts), format!("{} == {} and {} == {} but {} != {}", show(b(a)), show(b(bb)), show(b(bb)), show(b(c)), show(b(a)), show(b(c))));
            }
            if xy && yz { ctx.stratum("triple:all-equal"); }
        }
        Err(m) => ctx.fail("C07.panic", { let mut f = c07_feats("RiRef", true, &texts); f.push(("impl", "RiRef==RiRef".into())); f }, format!("comparison panicked: {}", m)),
    }
    ctx.nontrivial_cur();
}

// =====================================================================  C08

fn c08_feats(ty: &str, what: &str, texts: &[&[u8]]) -> Feats {
    vec![("family", FAM.into()), ("type", ty.into()), ("law", what.into()), ("octets", octet_class(texts).into())]
}

/// The Eq/Ord/Hash laws on one pair of values of one type (borrowed `x`,`y`).
macro_rules! c08_laws {
    ($ctx:expr, $ty:expr, $x:expr, $y:expr, $texts:expr) => {{
        let (x, y) = ($x, $y);
        let texts: &[&[u8]] = $texts;
        $ctx.call("laws");
        match crate::ctx::guard(|| (x == y, x.cmp(y), y.cmp(x), x.partial_cmp(y), fnv(x), fnv(y), sip(x), sip(y), x.cmp(x), x == x)) {
            Err(m) => {
                $ctx.fail("C08.panic", c08_feats($ty, "total", texts), format!("{}: ==/cmp/hash panicked: {}", $ty, m));
                return;
            }
            Ok((eq, c, rc, pc, hx, hy, sx, sy, cxx, exx)) => {
                use std::cmp::Ordering;
                if eq && (hx != hy || sx != sy) {
                    $ctx.fail("C08.hash", c08_feats($ty, "eq=>hash", texts), format!("{}: {} == {} but their hashes differ", $ty, show(texts[0]), show(texts[1])));
                }
                if (c == Ordering::Equal) != eq {
                    $ctx.fail("C08.ord-eq", c08_feats($ty, "cmp==Equal<=>eq", texts), format!("{}: cmp({}, {}) = {:?} but == is {}", $ty, show(texts[0]), show(texts[1]), c, eq));
                }
                if c != rc.reverse() {
                    $ctx.fail("C08.antisym", c08_feats($ty, "cmp(a,b)==cmp(b,a).reverse()", texts), format!("{}: cmp({}, {}) = {:?} but reversed = {:?}", $ty, show(texts[0]), show(texts[1]), c, rc));
                }
                if pc != Some(c) {
                    $ctx.fail("C08.partial", c08_feats($ty, "partial_cmp==Some(cmp)", texts), format!("{}: partial_cmp = {:?}, cmp = {:?}", $ty, pc, c));
                }
                if cxx != Ordering::Equal || !exx {
                    $ctx.fail("C08.reflexive", c08_feats($ty, "reflexive", texts), format!("{}: value not equal to itself", $ty));
                }
                // the operator and helper methods of the same traits (they can be overridden one by one)
                // (max/min are bound to a variable first: with a raw-pointer type expected, inference would
                // pick `*const T: Ord`, which orders by ADDRESS)
                if let Ok((lt, le, gt, ge, ne, mx, mn)) = crate::ctx::guard(|| (x < y, x <= y, x > y, x >= y, x != y, { let m = Ord::max(x, y); std::ptr::eq(m, x) }, { let m = Ord::min(x, y); std::ptr::eq(m, x) })) {
                    if lt != (c == Ordering::Less) || le != (c != Ordering::Greater) || gt != (c == Ordering::Greater) || ge != (c != Ordering::Less) || ne == eq {
                        $ctx.fail("C08.partial", c08_feats($ty, "operators < <= > >= != agree with cmp/==", texts), format!("{}: on ({}, {}) cmp = {:?}, == {} but < {} <= {} > {} >= {} != {}", $ty, show(texts[0]), show(texts[1]), c, eq, lt, le, gt, ge, ne));
                    }
                    // (only for unequal values: which of two equal values is returned is nobody's business)
                    let want_max_is_x = c == Ordering::Greater;
                    let want_min_is_x = c == Ordering::Less;
                    if c != Ordering::Equal && !std::ptr::eq(x, y) && (mx != want_max_is_x || mn != want_min_is_x) {
                        $ctx.fail("C08.partial", c08_feats($ty, "max/min agree with cmp", texts), format!("{}: on ({}, {}) cmp = {:?} but max picks the {} and min the {} argument", $ty, show(texts[0]), show(texts[1]), c, if mx { "first" } else { "second" }, if mn { "first" } else { "second" }));
                    }
                }
                $ctx.stratum(if eq { "law:equal-pair" } else { "law:unequal-pair" });
                (eq, c, hx)
            }
        }
    }};
}

macro_rules! c08_same {
    ($ctx:expr, $ty:expr, $what:expr, $texts:expr, $a:expr, $b:expr) => {{
        $ctx.call($what);
        match crate::ctx::guard(|| ($a, $b)) {
            Ok((a, b)) => {
                if a != b {
                    $ctx.fail("C08.views", c08_feats($ty, $what, $texts), format!("{}: {} disagree: {:?} vs {:?} on {}", $ty, $what, a, b, $texts.iter().map(|t| show(t)).collect::<Vec<_>>().join(" , ")));
                }
            }
            Err(m) => $ctx.fail("C08.panic", c08_feats($ty, $what, $texts), format!("{}: {} panicked: {}", $ty, $what, m)),
        }
    }};
}

pub fn c08_ref_pair(ctx: &mut Ctx, a: &str, bb: &str) {
    let (Ok(x), Ok(y)) = (RiRef::new(a), RiRef::new(bb)) else {
        ctx.stratum("skipped:rejected-by-library");
        return;
    };
    let texts: [&[u8]; 2] = [b(a), b(bb)];
    let (_eq, c, hx) = c08_laws!(ctx, "RiRef", x, y, &texts);
    let xo = x.to_owned();
    let yo = y.to_owned();
    // owned vs borrowed (Borrow<RiRef> for RiRefBuf)
    c08_same!(ctx, "RiRefBuf", "hash owned vs borrowed", &texts, fnv(&xo), hx);
    c08_same!(ctx, "RiRefBuf", "hash owned vs borrowed (DefaultHasher)", &texts, sip(&xo), sip(x));
    c08_same!(ctx, "RiRefBuf", "cmp owned vs borrowed", &texts, xo.cmp(&yo), c);
    c08_same!(ctx, "RiRefBuf", "partial_cmp Buf/borrowed", &texts, xo.partial_cmp(y), Some(c));
    c08_same!(ctx, "RiRefBuf", "partial_cmp Buf/&borrowed", &texts, xo.partial_cmp(&y), Some(c));
    c08_same!(ctx, "RiRef", "partial_cmp borrowed/Buf", &texts, x.partial_cmp(&yo), Some(c));
    c08_same!(ctx, "RiRef", "partial_cmp borrowed/&borrowed", &texts, x.partial_cmp(&y), Some(c));
    c08_same!(ctx, "RiRefBuf", "eq owned vs borrowed", &texts, xo == yo, x == y);
    if let (Some(xi), Some(yi)) = (x.as_full(), y.as_full()) {
        ctx.stratum("pair:both-full");
        let (_e2, c2, hxi) = c08_laws!(ctx, "Ri", xi, yi, &texts);
        // a URI/IRI versus the same text seen as a reference (Borrow<RiRef> for Ri and RiBuf)
        c08_same!(ctx, "Ri", "hash full vs reference view", &texts, hxi, hx);
        c08_same!(ctx, "Ri", "hash full vs reference view (DefaultHasher)", &texts, sip(xi), sip(x));
        c08_same!(ctx, "Ri", "cmp full vs reference view", &texts, c2, c);
        let xio = xi.to_owned();
        let yio = yi.to_owned();
        c08_same!(ctx, "RiBuf", "hash owned vs borrowed", &texts, fnv(&xio), hxi);
        c08_same!(ctx, "RiBuf", "cmp owned vs borrowed", &texts, xio.cmp(&yio), c2);
        c08_same!(ctx, "RiBuf", "hash RiBuf vs RiRef view", &texts, fnv(&xio), hx);
        c08_same!(ctx, "Ri", "partial_cmp Ri/RiRef", &texts, xi.partial_cmp(y), Some(c));
        c08_same!(ctx, "Ri", "partial_cmp Ri/&RiRef", &texts, xi.partial_cmp(&y), Some(c));
        c08_same!(ctx, "Ri", "partial_cmp Ri/RiBuf", &texts, xi.partial_cmp(&yio), Some(c));
        c08_same!(ctx, "Ri", "partial_cmp Ri/&Ri", &texts, xi.partial_cmp(&yi), Some(c));
        c08_same!(ctx, "Ri", "partial_cmp Ri/RiRefBuf", &texts, xi.partial_cmp(&yo), Some(c));
        c08_same!(ctx, "RiRef", "partial_cmp RiRef/Ri", &texts, x.partial_cmp(yi), Some(c));
        c08_same!(ctx, "RiRef", "partial_cmp RiRef/&Ri", &texts, x.partial_cmp(&yi), Some(c));
        c08_same!(ctx, "RiRef", "partial_cmp RiRef/RiBuf", &texts, x.partial_cmp(&yio), Some(c));
        c08_same!(ctx, "RiBuf", "partial_cmp RiBuf/RiRef", &texts, xio.partial_cmp(y), Some(c));
        c08_same!(ctx, "RiBuf", "partial_cmp RiBuf/&RiRef", &texts, xio.partial_cmp(&y), Some(c));
        c08_same!(ctx, "RiBuf", "partial_cmp RiBuf/RiRefBuf", &texts, xio.partial_cmp(&yo), Some(c));
        c08_same!(ctx, "RiBuf", "partial_cmp RiBuf/Ri", &texts, xio.partial_cmp(yi), Some(c));
        c08_same!(ctx, "RiRefBuf", "partial_cmp RiRefBuf/Ri", &texts, xo.partial_cmp(yi), Some(c));
        c08_same!(ctx, "RiRefBuf", "partial_cmp RiRefBuf/&Ri", &texts, xo.partial_cmp(&yi), Some(c));
        c08_same!(ctx, "RiRefBuf", "partial_cmp RiRefBuf/RiBuf", &texts, xo.partial_cmp(&yio), Some(c));
    }
    if a != bb { ctx.nontrivial_cur(); }
}

macro_rules! c08_comp_typed {
    ($ctx:expr, $name:literal, $T:ty, $a:expr, $b:expr) => {{
        if let (Ok(x), Ok(y)) = (<$T>::new($a), <$T>::new($b)) {
            let texts: [&[u8]; 2] = [x.as_bytes(), y.as_bytes()];
            $ctx.stratum(concat!("comp:", $name));
            let (_eq, c, hx) = c08_laws!($ctx, $name, x, y, &texts);
            let xo = x.to_owned();
            let yo = y.to_owned();
            c08_same!($ctx, $name, "hash owned vs borrowed", &texts, fnv(&xo), hx);
            c08_same!($ctx, $name, "cmp owned vs borrowed", &texts, xo.cmp(&yo), c);
            c08_same!($ctx, $name, "partial_cmp Buf/borrowed", &texts, xo.partial_cmp(y), Some(c));
            c08_same!($ctx, $name, "partial_cmp Buf/&borrowed", &texts, xo.partial_cmp(&y), Some(c));
            // collections keyed by the owned form, looked up through Borrow<borrowed>
            let r = crate::ctx::guard(|| {
                let mut hs = std::collections::HashSet::new();
                hs.insert(xo.clone());
                let mut bs = std::collections::BTreeSet::new();
                bs.insert(xo.clone());
                (hs.contains(x), bs.contains(x), hs.contains(y), bs.contains(y), x == y)
            });
            match r {
                Ok((h1, b1, h2, b2, eq)) => {
                    if !h1 || !b1 || h2 != eq || b2 != eq {
                        $ctx.fail("C08.lookup", c08_feats($name, "set lookup through Borrow", &texts), format!("{}: inserted {} ; contains(self) hash={} btree={} ; contains({}) hash={} btree={} ; == is {}", $name, show(texts[0]), h1, b1, show(texts[1]), h2, b2, eq));
                    }
                }
                Err(m) => $ctx.fail("C08.panic", c08_feats($name, "set lookup through Borrow", &texts), format!("collection panicked: {}", m)),
            }
        } else {
            $ctx.stratum("skipped:rejected-by-library");
        }
    }};
}

pub fn c08_comp_pair(ctx: &mut Ctx, a: &str, bb: &str, kind: u64) {
    let (x, y) = (b(a), b(bb));
    match kind {
        0 => c08_comp_typed!(ctx, "Authority", Authority, a, bb),
        1 => {
            if let (Ok(p), Ok(q)) = (Path::new(a), Path::new(bb)) {
                let texts: [&[u8]; 2] = [x, y];
                ctx.stratum("comp:Path");
                let _ = c08_laws!(ctx, "Path", p, q, &texts);
            }
        }
        2 => c08_comp_typed!(ctx, "UserInfo", UserInfo, a, bb),
        3 => c08_comp_typed!(ctx, "Host", Host, a, bb),
        4 => c08_comp_typed!(ctx, "Segment", Segment, a, bb),
        5 => c08_comp_typed!(ctx, "Query", Query, a, bb),
        6 => c08_comp_typed!(ctx, "Fragment", Fragment, a, bb),
        7 => c08_comp_typed!(ctx, "Scheme", Scheme, x, y),
        _ => c08_comp_typed!(ctx, "Port", Port, x, y),
    }
    if a != bb { ctx.nontrivial_cur(); }
}

/// Batch: total order by sorting, and collection lookups through every Borrow view of the family.
pub fn c08_batch(ctx: &mut Ctx, texts: &[&str]) {
    let vals: Vec<RiRefBuf> = texts.iter().filter_map(|t| RiRefBuf::new(own(t)).ok()).collect();
    if vals.len() < 2 { return; }
    let all: Vec<&[u8]> = vals.iter().map(|v| v.as_bytes()).collect();
    let mut sorted: Vec<&RiRefBuf> = vals.iter().collect();
    ctx.call("sort");
    match crate::ctx::guard(|| { sorted.sort(); sorted }) {
        Err(m) => { ctx.fail("C08.panic", c08_feats("RiRefBuf", "sort", &all), format!("sorting a batch panicked: {}", m)); return; }
        Ok(sorted) => {
            let mut triples = 0u64;
            for i in 0..sorted.len() {
                for j in (i + 1)..sorted.len() {
                    triples += 1;
                    match crate::ctx::guard(|| sorted[i].cmp(sorted[j])) {
                        Ok(std::cmp::Ordering::Greater) => {
                            let t: [&[u8]; 2] = [sorted[i].as_bytes(), sorted[j].as_bytes()];
                            ctx.fail("C08.total-order", c08_feats("RiRefBuf", "sorted sequence has an inverted pair", &t), format!("after sorting, {} (index {}) compares Greater than {} (index {}): the ordering is not transitive/total", show(t[0]), i, show(t[1]), j));
                        }
                        Ok(_) => {}
                        Err(m) => ctx.fail("C08.panic", c08_feats("RiRefBuf", "cmp", &all), format!("cmp panicked: {}", m)),
                    }
                }
            }
            ctx.add("sorted_pairs_checked", triples);
        }
    }
    // collections
    let r = crate::ctx::guard(|| {
        let hs: std::collections::HashSet<RiRefBuf> = vals.iter().cloned().collect();
        let bs: std::collections::BTreeSet<RiRefBuf> = vals.iter().cloned().collect();
        let hm: std::collections::HashMap<RiRefBuf, usize> = vals.iter().cloned().enumerate().map(|(i, v)| (v, i)).collect();
        let mut missing: Vec<(String, &'static str)> = Vec::new();
        for v in &vals {
            let q: &RiRef = v.as_ref();
            if !hs.contains(q) { missing.push((v.as_str().to_string(), "HashSet<RiRefBuf>.contains(&RiRef)")); }
            if !bs.contains(q) { missing.push((v.as_str().to_string(), "BTreeSet<RiRefBuf>.contains(&RiRef)")); }
            if hm.get(q).is_none() { missing.push((v.as_str().to_string(), "HashMap<RiRefBuf,_>.get(&RiRef)")); }
        }
        let fulls: Vec<RiBuf> = vals.iter().filter_map(|v| v.clone().try_into_full().ok()).collect();
        let hs2: std::collections::HashSet<RiBuf> = fulls.iter().cloned().collect();
        let bs2: std::collections::BTreeSet<RiBuf> = fulls.iter().cloned().collect();
        for v in &fulls {
            let q: &Ri = v.as_ref();
            let qr: &RiRef = v.as_ref();
            if !hs2.contains(q) { missing.push((v.as_str().to_string(), "HashSet<RiBuf>.contains(&Ri)")); }
            if !bs2.contains(q) { missing.push((v.as_str().to_string(), "BTreeSet<RiBuf>.contains(&Ri)")); }
            if !hs2.contains(qr) { missing.push((v.as_str().to_string(), "HashSet<RiBuf>.contains(&RiRef)")); }
            if !bs2.contains(qr) { missing.push((v.as_str().to_string(), "BTreeSet<RiBuf>.contains(&RiRef)")); }
        }
        // borrowed full values as keys, looked up as references (Borrow<RiRef> for Ri)
        let hs3: std::collections::HashSet<&Ri> = fulls.iter().map(|v| v.as_ref()).collect();
        let _ = hs3.len();
        (missing, fulls.len())
    });
    match r {
        Ok((missing, nfull)) => {
            ctx.add("collection_lookups", (vals.len() * 3 + nfull * 4) as u64);
            if nfull > 0 { ctx.stratum("batch:has-full"); }
            for (t, what) in missing {
                let tt: [&[u8]; 1] = [t.as_bytes()];
                ctx.fail("C08.lookup", c08_feats("RiRef/Ri", what, &tt), format!("{}: {} was inserted but is not found", what, show(t.as_bytes())));
            }
        }
        Err(m) => ctx.fail("C08.panic", c08_feats("RiRefBuf", "collections", &all), format!("collection operations panicked: {}", m)),
    }
    // the paths of the batch as stand-alone values: absolute, relative and empty mixed
    {
        let mut paths: Vec<&Path> = vals.iter().map(|v| v.path()).collect();
        paths.push(Path::new("").unwrap());
        paths.push(Path::new("/").unwrap());
        match crate::ctx::guard(|| { paths.sort(); paths }) {
            Err(m) => ctx.fail("C08.panic", c08_feats("Path", "sort", &all), format!("sorting the paths of a batch panicked: {}", m)),
            Ok(sorted) => {
                for i in 0..sorted.len() {
                    for j in (i + 1)..sorted.len() {
                        if let Ok(std::cmp::Ordering::Greater) = crate::ctx::guard(|| sorted[i].cmp(sorted[j])) {
                            let t: [&[u8]; 2] = [sorted[i].as_bytes(), sorted[j].as_bytes()];
                            ctx.fail("C08.total-order", c08_feats("Path", "sorted sequence has an inverted pair", &t), format!("after sorting, path {} (index {}) compares Greater than {} (index {})", show(t[0]), i, show(t[1]), j));
                        }
                    }
                }
            }
        }
    }
    ctx.stratum("batch");
    ctx.nontrivial_cur();
}

// =====================================================================  C19

fn c19_feats(ty: &str, call: &str, wf: bool) -> Feats {
    vec![("family", FAM.into()), ("type", ty.into()), ("call", call.into()), ("octets", if wf { "utf8".into() } else { "ill-formed".into() })]
}

/// Features of a panic: additionally where it was raised (the recorded findings are panics inside the
/// pct-str crate; a panic raised by the library's own code is something else).
fn c19_total_feats(ty: &str, call: &str, wf: bool, m: &dyn std::fmt::Display) -> Feats {
    let mut f = c19_feats(ty, call, wf);
    let msg = m.to_string();
    let site = msg.rsplit('@').next().unwrap_or("");
    f.push(("panic_in", if site.contains("pct-str") || site.contains("pct_str") { "pct-str".into() } else if site.contains("utf8-decode") || site.contains("utf8_decode") { "utf8-decode".into() } else { "elsewhere".into() }));
    f
}

macro_rules! c19_typed {
    ($ctx:expr, $name:literal, $T:ty, $s:expr, $via:expr) => {{
        let s: &str = $s;
        if let Ok(v) = <$T>::new(s) {
            let want = model::pct_decode(s.as_bytes());
            let wf_text: Option<String> = String::from_utf8(want.clone()).ok();
            let wf = wf_text.is_some();
            $ctx.stratum(concat!("type:", $name));
            $ctx.stratum(if wf { "octets:utf8" } else { "octets:ill-formed" });
            $ctx.stratum($via);
            // the view itself
            let view = match crate::ctx::guard(|| v.as_pct_str()) {
                Ok(x) => x,
                Err(m) => { $ctx.fail("C19.total", c19_total_feats($name, "as_pct_str", wf, &m), format!("as_pct_str panicked: {}", m)); return; }
            };
            let dview: &_ = &**v; // Deref<Target = PctStr>
            // octets (bounded: at most len items)
            $ctx.call("bytes");
            match crate::ctx::guard(|| { let mut out = Vec::new(); let mut it = view.bytes(); let lim = s.len() + 1; while let Some(x) = it.next() { out.push(x); if out.len() > lim { break; } } out }) {
                Ok(got) => if got != want {
                    $ctx.fail("C19.bytes", c19_feats($name, "bytes", wf), format!("{} {}: bytes() = {:02x?}, expected {:02x?}", $name, show(s.as_bytes()), got, want));
                },
                Err(m) => $ctx.fail("C19.total", c19_total_feats($name, "bytes", wf, &m), format!("{} {}: bytes() panicked: {}", $name, show(s.as_bytes()), m)),
            }
            match crate::ctx::guard(|| dview.bytes().collect::<Vec<u8>>()) {
                Ok(got) => if got != want { $ctx.fail("C19.bytes", c19_feats($name, "deref.bytes", wf), format!("{}: Deref view bytes differ", $name)); },
                Err(m) => $ctx.fail("C19.total", c19_total_feats($name, "deref.bytes", wf, &m), format!("panicked: {}", m)),
            }
            // chars / len / decode / == str
            $ctx.call("chars");
            let chars = crate::ctx::guard(|| { let mut out = String::new(); let mut n = 0; for c in view.chars() { out.push(c); n += 1; if n > s.len() + 1 { break; } } out });
            $ctx.call("len");
            let len = crate::ctx::guard(|| view.len());
            $ctx.call("decode");
            let dec = crate::ctx::guard(|| view.decode());
            // the same calls written as methods of the component itself (resolved through Deref)
            if let Some(t) = &wf_text {
                $ctx.call("method-on-component");
                match crate::ctx::guard(|| (v.len(), v.chars().take(s.len() + 1).collect::<String>(), v.decode(), v.bytes().take(s.len() + 1).collect::<Vec<u8>>(), v.is_empty())) {
                    Ok((l, c, d, by, e)) => {
                        if l != t.chars().count() || &c != t || &d != t || by != want || e != t.is_empty() {
                            $ctx.fail("C19.text", c19_feats($name, "method-on-component", wf), format!("{} {}: called on the component itself, len() = {}, chars() = {:?}, decode() = {:?}, is_empty() = {} ; the decoded text is {:?}", $name, show(s.as_bytes()), l, c, d, e, t));
                        }
                    }
                    Err(m) => $ctx.fail("C19.total", c19_total_feats($name, "method-on-component", wf, &m), format!("{} {}: len()/chars()/decode()/bytes() called on the component panicked: {}", $name, show(s.as_bytes()), m)),
                }
            }
            match &wf_text {
                Some(t) => {
                    match &chars { Ok(c) => if c != t { $ctx.fail("C19.text", c19_feats($name, "chars", wf), format!("{} {}: chars() = {:?}, expected {:?}", $name, show(s.as_bytes()), c, t)); }, Err(m) => $ctx.fail("C19.total", c19_total_feats($name, "chars", wf, &m), format!("{} {}: chars() panicked: {}", $name, show(s.as_bytes()), m)) }
                    match &len { Ok(l) => if *l != t.chars().count() { $ctx.fail("C19.text", c19_feats($name, "len", wf), format!("{} {}: len() = {}, expected {}", $name, show(s.as_bytes()), l, t.chars().count())); }, Err(m) => $ctx.fail("C19.total", c19_total_feats($name, "len", wf, &m), format!("len() panicked: {}", m)) }
                    match &dec { Ok(d) => if d != t { $ctx.fail("C19.text", c19_feats($name, "decode", wf), format!("{} {}: decode() = {:?}, expected {:?}", $name, show(s.as_bytes()), d, t)); }, Err(m) => $ctx.fail("C19.total", c19_total_feats($name, "decode", wf, &m), format!("decode() panicked: {}", m)) }
                    $ctx.call("eq-str");
                    match crate::ctx::guard(|| (*view == *t.as_str(), *view == *format!("{}x", t).as_str(), if t.is_empty() { false } else { *view == t[..t.len() - t.chars().last().unwrap().len_utf8()] })) {
                        Ok((same, longer, shorter)) => {
                            if !same { $ctx.fail("C19.eq", c19_feats($name, "eq-str", wf), format!("{} {} != its own decoded text {:?}", $name, show(s.as_bytes()), t)); }
                            if longer || shorter { $ctx.fail("C19.eq", c19_feats($name, "eq-str", wf), format!("{} {} compares equal to a different text", $name, show(s.as_bytes()))); }
                        }
                        Err(m) => $ctx.fail("C19.total", c19_total_feats($name, "eq-str", wf, &m), format!("== str panicked: {}", m)),
                    }
                }
                None => {
                    if let Err(m) = &chars { $ctx.fail("C19.total", c19_total_feats($name, "chars", wf, &m), format!("{} {}: chars() panicked: {}", $name, show(s.as_bytes()), m)); }
                    if let Err(m) = &len { $ctx.fail("C19.total", c19_total_feats($name, "len", wf, &m), format!("{} {}: len() panicked: {}", $name, show(s.as_bytes()), m)); }
                    if let Err(m) = &dec { $ctx.fail("C19.total", c19_total_feats($name, "decode", wf, &m), format!("{} {}: decode() panicked: {}", $name, show(s.as_bytes()), m)); }
                    // never equate ill-formed or overlong sequences with well-formed text
                    let lossy = String::from_utf8_lossy(&want).to_string();
                    let mut probes: Vec<String> = vec![lossy, String::new(), "/".into(), "\0".into(), "A".into(), "\u{7ff}".into()];
                    if let Ok(d) = &dec { probes.push(d.clone()); }
                    if let Ok(c) = &chars { probes.push(c.clone()); }
                    $ctx.call("eq-str");
                    for p in probes {
                        match crate::ctx::guard(|| *view == *p.as_str()) {
                            Ok(true) => $ctx.fail("C19.equates", c19_feats($name, "eq-str", wf), format!("{} {} (octets {:02x?}, not well-formed UTF-8) compares equal to the well-formed text {:?}", $name, show(s.as_bytes()), want, p)),
                            Ok(false) => {}
                            Err(m) => $ctx.fail("C19.total", c19_total_feats($name, "eq-str", wf, &m), format!("{} {}: == str panicked: {}", $name, show(s.as_bytes()), m)),
                        }
                    }
                }
            }
        } else {
            $ctx.stratum("skipped:rejected-by-library");
        }
    }};
}

/// kind: 2 userinfo, 3 host, 4 segment, 5 query, 6 fragment
pub fn c19(ctx: &mut Ctx, s: &str, kind: u64) {
    match kind {
        2 => { c19_typed!(ctx, "UserInfo", UserInfo, s, "via:standalone"); }
        3 => { c19_typed!(ctx, "Host", Host, s, "via:standalone"); }
        4 => { c19_typed!(ctx, "Segment", Segment, s, "via:standalone"); }
        5 => { c19_typed!(ctx, "Query", Query, s, "via:standalone"); }
        _ => { c19_typed!(ctx, "Fragment", Fragment, s, "via:standalone"); }
    }
    c19_owned(ctx, s, kind);
    ctx.nontrivial_cur();
}

fn c19_owned(ctx: &mut Ctx, s: &str, kind: u64) {
    let want = model::pct_decode(s.as_bytes());
    let wf = std::str::from_utf8(&want).is_ok();
    macro_rules! own_one {
        ($name:literal, $TBuf:ty) => {{
            if let Ok(o) = <$TBuf>::new(own(s)) {
                ctx.call("into_pct_string");
                match crate::ctx::guard(|| { let p = o.into_pct_string(); (p.as_bytes().to_vec(), p.bytes().collect::<Vec<u8>>()) }) {
                    Ok((text, bytes)) => {
                        if text != s.as_bytes() || bytes != want {
                            ctx.fail("C19.bytes", c19_feats($name, "into_pct_string", wf), format!("{}Buf::into_pct_string of {}: text {} octets {:02x?}", $name, show(s.as_bytes()), show(&text), bytes));
                        }
                    }
                    Err(m) => ctx.fail("C19.total", c19_total_feats($name, "into_pct_string", wf, &m), format!("into_pct_string panicked: {}", m)),
                }
            }
        }};
    }
    match kind {
        2 => own_one!("UserInfo", UserInfoBuf),
        3 => own_one!("Host", HostBuf),
        5 => own_one!("Query", QueryBuf),
        6 => own_one!("Fragment", FragmentBuf),
        _ => {}
    }
}

/// The octets of the pct view of a component object returned by an accessor, compared with the
/// percent-decoding of the component the RFC split defines.
macro_rules! c19_obj {
    ($ctx:expr, $name:literal, $obj:expr, $model_text:expr, $whole:expr) => {{
        let want = model::pct_decode($model_text);
        let wf = std::str::from_utf8(&want).is_ok();
        $ctx.call("embedded.bytes");
        match crate::ctx::guard(|| { let o = $obj; (o.as_bytes().to_vec(), o.as_pct_str().bytes().take($whole.len() + 1).collect::<Vec<u8>>(), (&**o).bytes().take($whole.len() + 1).collect::<Vec<u8>>()) }) {
            Ok((text, got, got2)) => {
                if got != want || got2 != want {
                    $ctx.fail("C19.bytes", { let mut f = c19_feats($name, "embedded.bytes", wf); f.push(("via", "embedded".into())); f }, format!("{} of {}: the accessor returns {} whose pct view has octets {:02x?}, but the component is {} with octets {:02x?}", $name, show($whole), show(&text), got, show($model_text), want));
                }
            }
            Err(m) => $ctx.fail("C19.total", { let mut f = c19_total_feats($name, "embedded.bytes", wf, &m); f.push(("via", "embedded".into())); f }, format!("{} of {}: accessor or bytes() panicked: {}", $name, show($whole), m)),
        }
    }};
}

/// Components extracted from a full reference.
pub fn c19_embedded(ctx: &mut Ctx, s: &str) {
    if let Ok(r0) = RiRef::new(s) {
        let sp = model::split(b(s));
        if let (Some(a), Some(ma)) = (r0.authority(), sp.authority) {
            let ms = model::split_authority(ma);
            if let (Some(u), Some(mu)) = (crate::ctx::guard(|| a.user_info()).ok().flatten(), ms.user_info) { c19_obj!(ctx, "UserInfo", u, mu, b(s)); }
            if let Ok(h) = crate::ctx::guard(|| a.host()) { c19_obj!(ctx, "Host", h, ms.host, b(s)); }
        }
        let (_abs, msegs) = model::segments(sp.path);
        for (i, sg) in r0.path().segments().enumerate().take(8) {
            if let Some(ms) = msegs.get(i) { c19_obj!(ctx, "Segment", sg, ms, b(s)); }
        }
        if let (Some(q), Some(mq)) = (r0.query(), sp.query) { c19_obj!(ctx, "Query", q, mq, b(s)); }
        if let (Some(fr), Some(mf)) = (r0.fragment(), sp.fragment) { c19_obj!(ctx, "Fragment", fr, mf, b(s)); }
        // the same components obtained through the all-at-once decomposition (`parts()` of the reference,
        // of its authority and of the full type) are views of the same text
        if let Ok(p) = crate::ctx::guard(|| r0.parts()) {
            ctx.call("embedded.parts");
            let mut pmissing: Vec<&'static str> = Vec::new();
            match (p.query, sp.query) { (Some(q), Some(mq)) => { c19_obj!(ctx, "Query", q, mq, b(s)); } (None, None) => {} _ => pmissing.push("Query") }
            match (p.fragment, sp.fragment) { (Some(fr), Some(mf)) => { c19_obj!(ctx, "Fragment", fr, mf, b(s)); } (None, None) => {} _ => pmissing.push("Fragment") }
            for (i, sg) in p.path.segments().enumerate().take(8) {
                if let Some(ms) = msegs.get(i) { c19_obj!(ctx, "Segment", sg, ms, b(s)); }
            }
            match (p.authority, sp.authority) {
                (Some(a), Some(ma)) => {
                    let ms = model::split_authority(ma);
                    if let Ok(ap) = crate::ctx::guard(|| a.parts()) {
                        match (ap.user_info, ms.user_info) { (Some(u), Some(mu)) => { c19_obj!(ctx, "UserInfo", u, mu, b(s)); } (None, None) => {} _ => pmissing.push("UserInfo") }
                        c19_obj!(ctx, "Host", ap.host, ms.host, b(s));
                    }
                }
                (None, None) => {}
                _ => pmissing.push("Host"),
            }
            for name in pmissing {
                ctx.fail("C19.bytes", { let mut f = c19_feats(name, "embedded.parts.presence", true); f.push(("via", "parts".into())); f }, format!("{} of {}: parts() and the RFC split disagree on whether the component is there, so its percent-decoded view cannot be obtained (or is obtained for something else)", name, show(b(s))));
            }
        }
        if sp.scheme.is_some() {
            if let Ok(full) = Ri::new(s) {
                if let Ok(p) = crate::ctx::guard(|| full.parts()) {
                    ctx.call("embedded.parts (full type)");
                    let mut pmissing: Vec<&'static str> = Vec::new();
                    match (p.query, sp.query) { (Some(q), Some(mq)) => { c19_obj!(ctx, "Query", q, mq, b(s)); } (None, None) => {} _ => pmissing.push("Query") }
                    match (p.fragment, sp.fragment) { (Some(fr), Some(mf)) => { c19_obj!(ctx, "Fragment", fr, mf, b(s)); } (None, None) => {} _ => pmissing.push("Fragment") }
                    if let (Some(a), Some(ma)) = (p.authority, sp.authority) {
                        let ms = model::split_authority(ma);
                        if let Ok(ap) = crate::ctx::guard(|| a.parts()) { c19_obj!(ctx, "Host", ap.host, ms.host, b(s)); }
                    }
                    for name in pmissing {
                        ctx.fail("C19.bytes", { let mut f = c19_feats(name, "embedded.parts.presence", true); f.push(("via", "parts-full".into())); f }, format!("{} of {}: parts() of the full type and the RFC split disagree on whether the component is there", name, show(b(s))));
                    }
                }
            }
        }
        // a component the reference has must be obtainable as a view at all
        let mut missing: Vec<&'static str> = Vec::new();
        if let Ok(x) = crate::ctx::guard(|| r0.query().is_some()) { if x != sp.query.is_some() { missing.push("Query"); } }
        if let Ok(x) = crate::ctx::guard(|| r0.fragment().is_some()) { if x != sp.fragment.is_some() { missing.push("Fragment"); } }
        if let Ok(x) = crate::ctx::guard(|| r0.authority().is_some()) { if x != sp.authority.is_some() { missing.push("Host"); } }
        if let (Ok(Some(a)), Some(ma)) = (crate::ctx::guard(|| r0.authority()), sp.authority) {
            if let Ok(x) = crate::ctx::guard(|| a.user_info().is_some()) { if x != model::split_authority(ma).user_info.is_some() { missing.push("UserInfo"); } }
        }
        if let Ok(x) = crate::ctx::guard(|| r0.path().segments().count()) { if x != msegs.len() { missing.push("Segment"); } }
        for name in missing {
            ctx.call("embedded.presence");
            ctx.fail("C19.bytes", { let mut f = c19_feats(name, "embedded.presence", true); f.push(("via", "embedded".into())); f }, format!("{} of {}: the accessor and the RFC split disagree on whether the component is there, so its percent-decoded view cannot be obtained (or is obtained for something else)", name, show(b(s))));
        }
    }
    c19_embedded_views(ctx, s);
}

fn c19_embedded_views(ctx: &mut Ctx, s: &str) {
    let Ok(r) = RiRef::new(s) else { return };
    if let Some(a) = r.authority() {
        if let Some(u) = a.user_info() { let t = u.as_str().to_string(); c19_typed!(ctx, "UserInfo", UserInfo, &t, "via:embedded"); }
        let t = a.host().as_str().to_string();
        c19_typed!(ctx, "Host", Host, &t, "via:embedded");
    }
    let mut n = 0;
    for sg in r.path().segments() {
        let t = sg.as_str().to_string();
        c19_typed!(ctx, "Segment", Segment, &t, "via:embedded");
        n += 1;
        if n > 6 { break; }
    }
    if let Some(q) = r.query() { let t = q.as_str().to_string(); c19_typed!(ctx, "Query", Query, &t, "via:embedded"); }
    if let Some(f) = r.fragment() { let t = f.as_str().to_string(); c19_typed!(ctx, "Fragment", Fragment, &t, "via:embedded"); }
    ctx.nontrivial_cur();
}

// =====================================================================  operations (C04, C05, C09, C10, C11)

#[derive(Clone, Debug, PartialEq, Eq)]
pub enum Op {
    Push(String),
    Pop,
    Clear,
    SPush(String),
    SAppend(String),
    Norm,
    SetScheme(Option<String>),
    SetAuthority(Option<String>),
    SetPath(String),
    SetQuery(Option<String>),
    SetFragment(Option<String>),
    SetUserinfo(Option<String>),
    SetHost(String),
    SetPort(Option<String>),
    Resolve(String),
}

impl Op {
    pub fn name(&self) -> &'static str {
        match self {
            Op::Push(_) => "push", Op::Pop => "pop", Op::Clear => "clear", Op::SPush(_) => "symbolic_push", Op::SAppend(_) => "symbolic_append",
            Op::Norm => "normalize", Op::SetScheme(_) => "set_scheme", Op::SetAuthority(_) => "set_authority", Op::SetPath(_) => "set_path",
            Op::SetQuery(_) => "set_query", Op::SetFragment(_) => "set_fragment", Op::SetUserinfo(_) => "set_userinfo", Op::SetHost(_) => "set_host",
            Op::SetPort(_) => "set_port", Op::Resolve(_) => "resolve",
        }
    }
    pub fn is_path_op(&self) -> bool {
        matches!(self, Op::Push(_) | Op::Pop | Op::Clear | Op::SPush(_) | Op::SAppend(_) | Op::Norm)
    }
    pub fn is_auth_op(&self) -> bool {
        matches!(self, Op::SetUserinfo(_) | Op::SetHost(_) | Op::SetPort(_))
    }
    /// Are the arguments valid values of their types in this family (model)?
    pub fn args_valid(&self) -> bool {
        let v = |p: Prod, s: &str| valid(p, s.as_bytes());
        match self {
            Op::Push(s) | Op::SPush(s) => v(Prod::Segment, s),
            Op::SAppend(p) | Op::SetPath(p) => v(Prod::Path, p),
            Op::SetScheme(Some(s)) => v(Prod::Scheme, s),
            Op::SetAuthority(Some(a)) => v(Prod::Authority, a),
            Op::SetQuery(Some(q)) => v(Prod::Query, q),
            Op::SetFragment(Some(f)) => v(Prod::Fragment, f),
            Op::SetUserinfo(Some(u)) => v(Prod::UserInfo, u),
            Op::SetHost(h) => v(Prod::Host, h),
            Op::SetPort(Some(p)) => v(Prod::Port, p),
            Op::Resolve(b) => v(Prod::Ri, b),
            _ => true,
        }
    }
}

pub fn parse_ops(s: &str) -> Vec<Op> {
    let mut v = Vec::new();
    for line in s.split('\n') {
        if line.is_empty() { continue; }
        let (k, arg) = match line.find(':') { Some(i) => (&line[..i], Some(line[i + 1..].to_string())), None => (line, None) };
        let op = match (k, arg) {
            ("push", Some(a)) => Op::Push(a),
            ("pop", None) => Op::Pop,
            ("clear", None) => Op::Clear,
            ("spush", Some(a)) => Op::SPush(a),
            ("sappend", Some(a)) => Op::SAppend(a),
            ("norm", None) => Op::Norm,
            ("scheme", Some(a)) => Op::SetScheme(Some(a)),
            ("scheme-", None) => Op::SetScheme(None),
            ("auth", Some(a)) => Op::SetAuthority(Some(a)),
            ("auth-", None) => Op::SetAuthority(None),
            ("path", Some(a)) => Op::SetPath(a),
            ("query", Some(a)) => Op::SetQuery(Some(a)),
            ("query-", None) => Op::SetQuery(None),
            ("frag", Some(a)) => Op::SetFragment(Some(a)),
            ("frag-", None) => Op::SetFragment(None),
            ("ui", Some(a)) => Op::SetUserinfo(Some(a)),
            ("ui-", None) => Op::SetUserinfo(None),
            ("host", Some(a)) => Op::SetHost(a),
            ("port", Some(a)) => Op::SetPort(Some(a)),
            ("port-", None) => Op::SetPort(None),
            ("resolve", Some(a)) => Op::Resolve(a),
            _ => continue,
        };
        v.push(op);
    }
    v
}

fn apply_path_op(pm: &mut PathMut, op: &Op) {
    match op {
        Op::Push(s) => pm.push(Segment::new(s.as_str()).unwrap()),
        Op::Pop => pm.pop(),
        Op::Clear => pm.clear(),
        Op::SPush(s) => pm.symbolic_push(Segment::new(s.as_str()).unwrap()),
        Op::SAppend(p) => pm.symbolic_append(Path::new(p.as_str()).unwrap().segments()),
        Op::Norm => pm.normalize(),
        _ => {}
    }
}
fn apply_pathbuf_op(pb: &mut PathBuf, op: &Op) {
    match op {
        Op::Push(s) => pb.push(Segment::new(s.as_str()).unwrap()),
        Op::Pop => pb.pop(),
        Op::Clear => pb.clear(),
        Op::SPush(s) => pb.symbolic_push(Segment::new(s.as_str()).unwrap()),
        Op::SAppend(p) => pb.symbolic_append(Path::new(p.as_str()).unwrap().segments()),
        Op::Norm => pb.normalize(),
        _ => {}
    }
}
fn apply_auth_op(am: &mut AuthorityMut, op: &Op) {
    match op {
        Op::SetUserinfo(u) => am.set_userinfo(u.as_ref().map(|u| UserInfo::new(u.as_str()).unwrap())),
        Op::SetHost(h) => am.set_host(Host::new(h.as_str()).unwrap()),
        Op::SetPort(p) => am.set_port(p.as_ref().map(|p| Port::new(p.as_bytes()).unwrap())),
        _ => {}
    }
}
/// Apply a buffer-level operation to an owned reference (fresh handles for path/authority ops).
fn apply_ref_op(buf: &mut RiRefBuf, op: &Op) {
    match op {
        Op::SetScheme(s) => buf.set_scheme(s.as_ref().map(|s| Scheme::new(s.as_bytes()).unwrap())),
        Op::SetAuthority(a) => buf.set_authority(a.as_ref().map(|a| Authority::new(a.as_str()).unwrap())),
        Op::SetPath(p) => buf.set_path(Path::new(p.as_str()).unwrap()),
        Op::SetQuery(q) => buf.set_query(q.as_ref().map(|q| Query::new(q.as_str()).unwrap())),
        Op::SetFragment(f) => buf.set_fragment(f.as_ref().map(|f| Fragment::new(f.as_str()).unwrap())),
        Op::Resolve(b) => buf.resolve(Ri::new(b.as_str()).unwrap()),
        o if o.is_path_op() => { let mut pm = buf.path_mut(); apply_path_op(&mut pm, o); }
        o if o.is_auth_op() => { if let Some(mut am) = buf.authority_mut() { apply_auth_op(&mut am, o); } }
        _ => {}
    }
}
/// The same for an owned full URI/IRI (set_scheme takes a scheme, not an option; no resolve).
fn apply_full_op(buf: &mut RiBuf, op: &Op) -> bool {
    match op {
        Op::SetScheme(Some(s)) => buf.set_scheme(Scheme::new(s.as_bytes()).unwrap()),
        Op::SetScheme(None) | Op::Resolve(_) => return false,
        Op::SetAuthority(a) => buf.set_authority(a.as_ref().map(|a| Authority::new(a.as_str()).unwrap())),
        Op::SetPath(p) => buf.set_path(Path::new(p.as_str()).unwrap()),
        Op::SetQuery(q) => buf.set_query(q.as_ref().map(|q| Query::new(q.as_str()).unwrap())),
        Op::SetFragment(f) => buf.set_fragment(f.as_ref().map(|f| Fragment::new(f.as_str()).unwrap())),
        o if o.is_path_op() => { let mut pm = buf.path_mut(); apply_path_op(&mut pm, o); }
        o if o.is_auth_op() => { if let Some(mut am) = buf.authority_mut() { apply_auth_op(&mut am, o); } }
        _ => {}
    }
    true
}

fn first_seg_class(p: &[u8]) -> &'static str {
    let (_abs, segs) = model::segments(p);
    match segs.first() {
        None => "none",
        Some(s) if s.is_empty() => "empty",
        Some(s) if s.contains(&b':') => "colon",
        Some(s) if *s == b"." => "dot",
        Some(s) if *s == b".." => "dotdot",
        _ => "plain",
    }
}
fn path_form(p: &[u8]) -> &'static str {
    if p.is_empty() { "empty" } else if p == b"/" { "root" } else if p.starts_with(b"//") { "slashslash" } else if p.starts_with(b"/") { "absolute" } else { "relative" }
}
/// Small fixed feature vector of a reference state (used to key known findings and count states).
fn state_feats(t: &[u8]) -> Vec<(&'static str, String)> {
    let sp = model::split(t);
    vec![
        ("has_scheme", yn(sp.scheme.is_some())),
        ("has_authority", yn(sp.authority.is_some())),
        ("path_form", path_form(sp.path).into()),
        ("first_seg", first_seg_class(sp.path).into()),
    ]
}
fn state_hash(t: &[u8]) -> u64 {
    let sp = model::split(t);
    let s = format!("{}{}{}{}|{}|{}|{}", sp.scheme.is_some() as u8, sp.authority.is_some() as u8, sp.query.is_some() as u8, sp.fragment.is_some() as u8, path_form(sp.path), first_seg_class(sp.path), sp.authority.map_or("-", |a| host_kind(model::split_authority(a).host)));
    crate::rng::hash_bytes(s.as_bytes())
}

// =====================================================================  C11

fn c11_feats(op: &Op, clause_op_index: usize, before: &[u8]) -> Feats {
    let a = model::split_authority(before);
    vec![
        ("family", FAM.into()),
        ("op", op.name().into()),
        ("arg", match op { Op::SetUserinfo(None) | Op::SetPort(None) => "remove".into(), _ => "set".into() }),
        ("nth_edit_through_handle", if clause_op_index == 0 { "first".into() } else { "later".into() }),
        ("host_kind", host_kind(a.host).into()),
        ("had_userinfo", yn(a.user_info.is_some())),
        ("had_port", yn(a.port.is_some())),
    ]
}

/// A history of authority edits through ONE handle; compared with the record model after every
/// call, with the enclosing text, and with the same history applied through fresh handles.
pub fn c11_history(ctx: &mut Ctx, initial: &str, ops_text: &str) {
    let ops: Vec<Op> = parse_ops(ops_text).into_iter().filter(|o| o.is_auth_op() && o.args_valid()).collect();
    if ops.is_empty() { return; }
    let sp0 = model::split(b(initial));
    let Some(auth0) = sp0.authority else { ctx.stratum("skipped:no-authority"); return; };
    let Ok(mut buf) = RiRefBuf::new(own(initial)) else { ctx.stratum("skipped:rejected-by-library"); return; };
    let a0 = model::split_authority(auth0);
    let mut m_ui: Option<Vec<u8>> = a0.user_info.map(|x| x.to_vec());
    let mut m_host: Vec<u8> = a0.host.to_vec();
    let mut m_port: Option<Vec<u8>> = a0.port.map(|x| x.to_vec());
    // prefix/suffix of the enclosing text around the authority
    let start = auth0.as_ptr() as usize - initial.as_ptr() as usize;
    let prefix = b(initial)[..start].to_vec();
    let suffix = b(initial)[start + auth0.len()..].to_vec();
    // the model is independent of the library: compute every expected authority first
    let mut expected_auths: Vec<Vec<u8>> = Vec::new();
    {
        let (mut ui, mut host, mut port) = (m_ui.clone(), m_host.clone(), m_port.clone());
        for op in &ops {
            match op {
                Op::SetUserinfo(u) => ui = u.as_ref().map(|x| x.as_bytes().to_vec()),
                Op::SetHost(h) => host = h.as_bytes().to_vec(),
                Op::SetPort(p) => port = p.as_ref().map(|x| x.as_bytes().to_vec()),
                _ => {}
            }
            expected_auths.push(model::render_authority(ui.as_deref(), &host, port.as_deref()));
        }
    }
    ctx.stratum(&format!("host:{}", host_kind(a0.host)));
    ctx.stratum(&format!("history-len:{}", ops.len().min(4)));
    let mut broken = false;
    {
        let Some(mut am) = buf.authority_mut() else { ctx.fail("C11.handle", vec![("family", FAM.into())], "authority_mut() is None although an authority is present".into()); return; };
        for (i, op) in ops.iter().enumerate() {
            let before = model::render_authority(m_ui.as_deref(), &m_host, m_port.as_deref());
            match op {
                Op::SetUserinfo(u) => m_ui = u.as_ref().map(|x| x.as_bytes().to_vec()),
                Op::SetHost(h) => m_host = h.as_bytes().to_vec(),
                Op::SetPort(p) => m_port = p.as_ref().map(|x| x.as_bytes().to_vec()),
                _ => {}
            }
            let want = model::render_authority(m_ui.as_deref(), &m_host, m_port.as_deref());
            ctx.call(op.name());
            let r = crate::ctx::guard(|| { apply_auth_op(&mut am, op); (am.as_authority().as_bytes().to_vec(), (*am).as_bytes().to_vec()) });
            match r {
                Err(m) => { ctx.fail("C11.panic", c11_feats(op, i, &before), format!("{} (edit #{} through one handle) on authority {} of {} panicked: {}", op.name(), i + 1, show(&before), show(b(initial)), m)); broken = true; break; }
                Ok((view, deref_view)) => {
                    if view != want || deref_view != want {
                        ctx.fail("C11.handle-view", c11_feats(op, i, &before), format!("after {} {:?} (edit #{}) the handle views {} but the new authority is {} (initial {})", op.name(), op, i + 1, show(&view), show(&want), show(b(initial))));
                        broken = true;
                        break;
                    }
                    ctx.set_insert("states", crate::rng::hash_bytes(format!("{}|{}|{}", host_kind(&m_host), m_ui.is_some(), m_port.is_some()).as_bytes()));
                    ctx.set_insert("transitions", crate::rng::hash_bytes(format!("{}|{}|{}|{}|{:?}", host_kind(model::split_authority(&before).host), model::split_authority(&before).user_info.is_some(), model::split_authority(&before).port.is_some(), op.name(), matches!(op, Op::SetUserinfo(None) | Op::SetPort(None))).as_bytes()));
                }
            }
        }
        if !broken {
            let fin = crate::ctx::guard(|| am.into_authority().as_bytes().to_vec());
            match fin {
                Ok(f) => if &f != expected_auths.last().unwrap() { ctx.fail("C11.handle-view", c11_feats(&ops[ops.len() - 1], ops.len() - 1, &f), format!("into_authority() gives {} but the authority is {}", show(&f), show(expected_auths.last().unwrap()))); },
                Err(m) => ctx.fail("C11.panic", c11_feats(&ops[ops.len() - 1], ops.len() - 1, b""), format!("into_authority panicked: {}", m)),
            }
        }
    }
    // enclosing text: only the authority replaced
    let mut want_text = prefix.clone();
    want_text.extend_from_slice(expected_auths.last().unwrap());
    want_text.extend_from_slice(&suffix);
    if !broken {
        if buf.as_bytes() != &want_text[..] {
            ctx.fail("C11.enclosing", c11_feats(&ops[ops.len() - 1], ops.len() - 1, auth0), format!("after {:?} on {} the buffer is {} but only the authority should have changed: {}", ops, show(b(initial)), show(buf.as_bytes()), show(&want_text)));
        } else if !valid(Prod::RiRef, buf.as_bytes()) {
            ctx.fail("C11.reparse", c11_feats(&ops[ops.len() - 1], ops.len() - 1, auth0), format!("after {:?} on {} the buffer {} is not a valid reference", ops, show(b(initial)), show(buf.as_bytes())));
        }
    }
    // fresh handle per call
    if let Ok(mut buf2) = RiRefBuf::new(own(initial)) {
        for (i, op) in ops.iter().enumerate() {
            let before = buf2.as_bytes().to_vec();
            let r = crate::ctx::guard(|| { if let Some(mut am) = buf2.authority_mut() { apply_auth_op(&mut am, op); } });
            let mut want = prefix.clone();
            want.extend_from_slice(&expected_auths[i]);
            want.extend_from_slice(&suffix);
            match r {
                Err(m) => { ctx.fail("C11.panic", { let mut f = c11_feats(op, 0, model::split(&before).authority.unwrap_or(b"")); f.push(("handle", "fresh".into())); f }, format!("{} through a fresh handle on {} panicked: {}", op.name(), show(&before), m)); break; }
                Ok(()) => if buf2.as_bytes() != &want[..] {
                    ctx.fail("C11.fresh", { let mut f = c11_feats(op, 0, model::split(&before).authority.unwrap_or(b"")); f.push(("handle", "fresh".into())); f }, format!("{:?} through a fresh handle on {} gives {} instead of {}", op, show(&before), show(buf2.as_bytes()), show(&want)));
                    break;
                },
            }
        }
    }
    // full URI/IRI buffers take the same path
    if sp0.scheme.is_some() {
        if let Ok(mut fb) = RiBuf::new(own(initial)) {
            let r = crate::ctx::guard(|| { if let Some(mut am) = fb.authority_mut() { for op in &ops { apply_auth_op(&mut am, op); } } });
            if r.is_ok() && !broken && fb.as_bytes() != &want_text[..] {
                ctx.fail("C11.enclosing", { let mut f = c11_feats(&ops[0], 0, auth0); f.push(("buffer", "RiBuf".into())); f }, format!("RiBuf: after {:?} on {} the buffer is {} instead of {}", ops, show(b(initial)), show(fb.as_bytes()), show(&want_text)));
            }
        }
    }
    ctx.nontrivial_cur();
}

// =====================================================================  C05

fn c05_feats(op: &Op, before: &[u8], buffer: &str) -> Feats {
    let mut f: Feats = vec![("family", FAM.into()), ("buffer", buffer.into()), ("op", op.name().into())];
    f.push(("arg", match op {
        Op::SetScheme(None) | Op::SetAuthority(None) | Op::SetQuery(None) | Op::SetFragment(None) => "remove".into(),
        Op::SetPath(p) => format!("path:{}:{}", path_form(p.as_bytes()), first_seg_class(p.as_bytes())),
        _ => "set".into(),
    }));
    f.extend(state_feats(before));
    f
}

fn c05_check(ctx: &mut Ctx, op: &Op, before_text: &[u8], after_text: &[u8], buffer: &str) {
    let bsp = model::split(before_text);
    let feats = || c05_feats(op, before_text, buffer);
    if std::str::from_utf8(after_text).is_err() || !valid(Prod::RiRef, after_text) {
        ctx.fail("C05.valid", feats(), format!("{:?} on {} gives {} which is not a valid reference", op, show(before_text), show(after_text)));
        return;
    }
    let asp = model::split(after_text);
    let (hs, ha) = (asp.scheme.is_some(), asp.authority.is_some());
    let ob = |x: &Option<String>| x.as_ref().map(|s| s.as_bytes().to_vec());
    // expected components
    let mut want_scheme = bsp.scheme.map(|x| x.to_vec());
    let mut want_auth = bsp.authority.map(|x| x.to_vec());
    let mut want_path = bsp.path.to_vec();
    let mut want_query = bsp.query.map(|x| x.to_vec());
    let mut want_frag = bsp.fragment.map(|x| x.to_vec());
    match op {
        Op::SetScheme(s) => want_scheme = ob(s),
        Op::SetAuthority(a) => want_auth = ob(a),
        Op::SetPath(p) => want_path = p.as_bytes().to_vec(),
        Op::SetQuery(q) => want_query = ob(q),
        Op::SetFragment(f) => want_frag = ob(f),
        _ => {}
    }
    let target = match op { Op::SetScheme(_) => "scheme", Op::SetAuthority(_) => "authority", Op::SetPath(_) => "path", Op::SetQuery(_) => "query", _ => "fragment" };
    let mut cmp = |name: &str, got: Option<&[u8]>, want: Option<&[u8]>| {
        if got != want {
            let clause = if name == target { "C05.target" } else { "C05.frame" };
            let mut f = feats();
            f.push(("component", name.to_string()));
            ctx.fail(clause, f, format!("{:?} on {} gives {}: {} reads back {} but should be {}", op, show(before_text), show(after_text), name, show_opt(got), show_opt(want)));
        }
    };
    cmp("scheme", asp.scheme, want_scheme.as_deref());
    cmp("authority", asp.authority, want_auth.as_deref());
    cmp("query", asp.query, want_query.as_deref());
    cmp("fragment", asp.fragment, want_frag.as_deref());
    if !model::path_matches_shielded(asp.path, &want_path, hs, ha) {
        let clause = if target == "path" { "C05.target" } else { "C05.frame" };
        let mut f = feats();
        f.push(("component", "path".to_string()));
        ctx.fail(clause, f, format!("{:?} on {} gives {}: path reads back {} but should be {} (modulo the documented disambiguations)", op, show(before_text), show(after_text), show(asp.path), show(&want_path)));
    } else if asp.path != &want_path[..] {
        ctx.stratum("disambiguation-applied");
    }
}

/// One setter call on RiRefBuf (and RiBuf when applicable).
pub fn c05(ctx: &mut Ctx, initial: &str, op_text: &str) {
    let ops = parse_ops(op_text);
    let Some(op) = ops.first() else { return };
    if !op.args_valid() { ctx.stratum("skipped:invalid-arg"); return; }
    let Ok(mut buf) = RiRefBuf::new(own(initial)) else { ctx.stratum("skipped:rejected-by-library"); return; };
    ctx.stratum(&format!("op:{}", op.name()));
    ctx.call(op.name());
    match crate::ctx::guard(|| { apply_ref_op(&mut buf, op); buf.as_bytes().to_vec() }) {
        Err(m) => ctx.fail("C05.panic", c05_feats(op, b(initial), "RiRefBuf"), format!("{:?} on {} panicked: {}", op, show(b(initial)), m)),
        Ok(after) => {
            c05_check(ctx, op, b(initial), &after, "RiRefBuf");
            if let Ok(t) = std::str::from_utf8(&after) {
                if valid(Prod::RiRef, &after) { c02(ctx, t); }
            }
            ctx.set_insert("states", state_hash(b(initial)));
            ctx.set_insert("transitions", crate::rng::mix(state_hash(b(initial)) ^ crate::rng::hash_bytes(format!("{:?}", c05_feats(op, b"", "")).as_bytes())));
        }
    }
    if model::split(b(initial)).scheme.is_some() && !matches!(op, Op::SetScheme(None)) {
        if let Ok(mut fb) = RiBuf::new(own(initial)) {
            match crate::ctx::guard(|| { apply_full_op(&mut fb, op); fb.as_bytes().to_vec() }) {
                Err(m) => ctx.fail("C05.panic", c05_feats(op, b(initial), "RiBuf"), format!("RiBuf: {:?} on {} panicked: {}", op, show(b(initial)), m)),
                Ok(after) => {
                    c05_check(ctx, op, b(initial), &after, "RiBuf");
                    if !valid(Prod::Ri, &after) {
                        ctx.fail("C05.valid", c05_feats(op, b(initial), "RiBuf"), format!("RiBuf: {:?} on {} gives {} which is not a valid full URI/IRI", op, show(b(initial)), show(&after)));
                    }
                }
            }
        }
    }
    ctx.nontrivial_cur();
}

// =====================================================================  C09

fn segs_owned(p: &[u8]) -> (bool, Vec<Vec<u8>>) {
    let (a, s) = model::segments(p);
    (a, s.into_iter().map(|x| x.to_vec()).collect())
}
fn segs_show(s: &[Vec<u8>]) -> String {
    format!("{:?}", s.iter().map(|x| String::from_utf8_lossy(x).to_string()).collect::<Vec<_>>())
}
/// actual == expected, or actual == ["."] ++ expected with expected[0] empty or containing ':'
fn shield_eq(actual: &[Vec<u8>], expected: &[Vec<u8>]) -> bool {
    if actual == expected { return true; }
    actual.len() == expected.len() + 1 && actual[0] == b"." && actual[1..] == *expected && expected.first().map_or(false, |f| f.is_empty() || f.contains(&b':'))
}
/// strip a leading "." that can be a shield (lenient equivalence used by differentials)
fn logical(segs: &[Vec<u8>]) -> Vec<Vec<u8>> {
    if segs.len() > 1 && segs[0] == b"." && (segs[1].is_empty() || segs[1].contains(&b':')) { segs[1..].to_vec() } else { segs.to_vec() }
}

fn c09_feats(what: &str, p: &[u8], shape: &str) -> Feats {
    let (abs, segs) = model::segments(p);
    let n = model::norm_seq(abs, &segs);
    vec![
        ("family", FAM.into()),
        ("entry", what.into()),
        ("shape", shape.into()),
        ("absolute", yn(abs)),
        ("norm_first", match n.first() { None => "none".into(), Some(s) if s.is_empty() => "empty".into(), Some(s) if s.contains(&b':') => "colon".into(), Some(s) if *s == b".." => "dotdot".into(), _ => "plain".into() }),
        ("last_raw_is_dot", yn(segs.last().map_or(false, |s| *s == b"." || *s == b".."))),
    ]
}

pub fn c09(ctx: &mut Ctx, path: &str) {
    let Ok(p) = Path::new(path) else { ctx.stratum("skipped:rejected-by-library"); return; };
    let t = b(path);
    let (abs, segs) = model::segments(t);
    let want_seq: Vec<Vec<u8>> = model::norm_seq(abs, &segs).into_iter().map(|x| x.to_vec()).collect();
    let want_text = model::norm_render(t);
    ctx.stratum(if abs { "path:absolute" } else { "path:relative" });
    ctx.stratum(&format!("nsegs:{}", if segs.len() > 16 { "17+" } else if segs.len() > 6 { "7-16" } else { "0-6" }));
    if t.len() > 512 { ctx.stratum("len:513+"); }
    if segs.iter().any(|s| *s == b"..") { ctx.stratum("has:dotdot"); }
    if segs.iter().any(|s| s.is_empty()) { ctx.stratum("has:empty"); }
    if want_seq.first().map_or(false, |s| s.is_empty() || s.contains(&b':')) { ctx.stratum("norm-first:needs-shield"); }
    // 1. iterator
    ctx.call("normalized_segments");
    match crate::ctx::guard(|| { let it = p.normalized_segments(); let l = it.len(); let mut v = Vec::new(); for s in it { v.push(s.as_bytes().to_vec()); if v.len() > t.len() + 2 { break; } } (l, v) }) {
        Err(m) => ctx.fail("C09.panic", c09_feats("normalized_segments", t, "standalone"), format!("normalized_segments of {} panicked: {}", show(t), m)),
        Ok((l, v)) => {
            if v != want_seq { ctx.fail("C09.sequence", c09_feats("normalized_segments", t, "standalone"), format!("normalized_segments of {} = {} but the left-to-right scan gives {}", show(t), segs_show(&v), segs_show(&want_seq))); }
            if l != want_seq.len() { ctx.fail("C09.sequence", c09_feats("normalized_segments.len", t, "standalone"), format!("normalized_segments().len() of {} = {} but the sequence has {} items", show(t), l, want_seq.len())); }
        }
    }
    // 1b. the same iterator driven from both ends (it is double-ended and exact-size)
    {
        let hsh = crate::rng::hash_bytes(t);
        match crate::ctx::guard(|| {
            let mut it = p.normalized_segments();
            let mut front: Vec<Vec<u8>> = Vec::new();
            let mut back: Vec<Vec<u8>> = Vec::new();
            let mut lens_ok = true;
            let mut remaining = it.len();
            let mut step = 0u32;
            loop {
                let from_back = (hsh >> (step % 64)) & 1 == 1;
                step += 1;
                let item = if from_back { it.next_back() } else { it.next() };
                match item {
                    Some(s) => {
                        if from_back { back.push(s.as_bytes().to_vec()) } else { front.push(s.as_bytes().to_vec()) }
                        remaining = remaining.saturating_sub(1);
                        if it.len() != remaining { lens_ok = false; }
                    }
                    None => break,
                }
                if front.len() + back.len() > t.len() + 2 { break; }
            }
            front.extend(back.into_iter().rev());
            (front, lens_ok)
        }) {
            Err(m) => ctx.fail("C09.panic", c09_feats("normalized_segments", t, "standalone"), format!("normalized_segments of {} driven from both ends panicked: {}", show(t), m)),
            Ok((v, lens_ok)) => {
                if v != want_seq { ctx.fail("C09.sequence", c09_feats("normalized_segments", t, "standalone"), format!("normalized_segments of {} driven from both ends (mask {:#x}) = {} but the left-to-right scan gives {}", show(t), hsh, segs_show(&v), segs_show(&want_seq))); }
                else if !lens_ok { ctx.fail("C09.sequence", c09_feats("normalized_segments.len", t, "standalone"), format!("normalized_segments().len() of {} does not count down while iterating from both ends", show(t))); }
            }
        }
    }
    // 1c. adaptor programs (nth, nth_back, folds, finds ...) on the normalised iterator
    {
        let hsh = crate::rng::hash_bytes(t);
        for r in 0..3u32 {
            let mask = hsh.rotate_left(r * 21) ^ (r as u64).wrapping_mul(0x9E37_79B9_7F4A_7C15);
            match crate::ctx::guard(|| adaptor_program(p.normalized_segments(), &want_seq, mask)) {
                Ok(Ok(())) => {}
                Ok(Err(e)) => ctx.fail("C09.sequence", c09_feats("normalized_segments", t, "standalone"), format!("normalized_segments of {} {} (program {:#x})", show(t), e, mask)),
                Err(m) => ctx.fail("C09.panic", c09_feats("normalized_segments", t, "standalone"), format!("normalized_segments of {} under adaptor program {:#x} panicked: {}", show(t), mask, m)),
            }
        }
    }
    // 2. normalized copy
    ctx.call("normalized");
    match crate::ctx::guard(|| { let n = p.normalized(); let n2 = n.normalized(); (n.as_bytes().to_vec(), n2.as_bytes().to_vec()) }) {
        Err(m) => ctx.fail("C09.panic", c09_feats("normalized", t, "standalone"), format!("normalized() of {} panicked: {}", show(t), m)),
        Ok((n, n2)) => {
            let (nabs, nsegs) = segs_owned(&n);
            // expected segments of the copy: the sequence, plus the empty segment that spells the
            // trailing '/' left by a final dot segment
            let mut wsegs = want_seq.clone();
            if segs.last().map_or(false, |l| *l == b"." || *l == b"..") && !want_seq.is_empty() { wsegs.push(Vec::new()); }
            // text equality only counts when the rendering is faithful (keeps absoluteness)
            let text_ok = n == want_text && (want_text.first() == Some(&b'/')) == abs;
            if !valid(Prod::Path, &n) {
                ctx.fail("C09.copy", c09_feats("normalized", t, "standalone"), format!("normalized() of {} = {} is not a valid path", show(t), show(&n)));
            } else if nabs != abs {
                ctx.fail("C09.absoluteness", c09_feats("normalized", t, "standalone"), format!("normalized() of {} = {} changes absoluteness", show(t), show(&n)));
            } else if !(text_ok || shield_eq(&nsegs, &wsegs)) {
                ctx.fail("C09.copy", c09_feats("normalized", t, "standalone"), format!("normalized() of {} = {} (segments {}) but the 5.2.4 rendering of the normalized sequence has segments {}", show(t), show(&n), segs_show(&nsegs), segs_show(&wsegs)));
            }
            if n2 != n { ctx.fail("C09.idempotent", c09_feats("normalized", t, "standalone"), format!("normalized() is not idempotent on {}: {} then {}", show(t), show(&n), show(&n2))); }
        }
    }
    // 3. in place, stand-alone
    if let Ok(mut pb) = PathBuf::new(own(path)) {
        ctx.call("PathBuf::normalize");
        match crate::ctx::guard(|| { pb.normalize(); let a = pb.as_bytes().to_vec(); pb.normalize(); (a, pb.as_bytes().to_vec()) }) {
            Err(m) => ctx.fail("C09.panic", c09_feats("PathBuf::normalize", t, "standalone"), format!("PathBuf::normalize on {} panicked: {}", show(t), m)),
            Ok((a, a2)) => {
                let (aabs, asegs) = segs_owned(&a);
                if !valid(Prod::Path, &a) {
                    ctx.fail("C09.inplace", c09_feats("PathBuf::normalize", t, "standalone"), format!("PathBuf::normalize on {} = {} is not a valid path", show(t), show(&a)));
                } else if aabs != abs {
                    ctx.fail("C09.absoluteness", c09_feats("PathBuf::normalize", t, "standalone"), format!("PathBuf::normalize on {} = {} changes absoluteness", show(t), show(&a)));
                } else if !(shield_eq(&asegs, &want_seq) || a == model::render_segments(abs, &want_seq.iter().map(|x| &x[..]).collect::<Vec<_>>())) {
                    ctx.fail("C09.inplace", c09_feats("PathBuf::normalize", t, "standalone"), format!("PathBuf::normalize on {} = {} (segments {}) but the normalized sequence is {}", show(t), show(&a), segs_show(&asegs), segs_show(&want_seq)));
                }
                if a2 != a { ctx.fail("C09.idempotent", c09_feats("PathBuf::normalize", t, "standalone"), format!("normalize() is not idempotent on {}: {} then {}", show(t), show(&a), show(&a2))); }
            }
        }
    }
    // 4. embedded in every compatible enclosing shape
    for (pre, shape) in [("", "----"), ("s:", "S---"), ("//h", "-A--"), ("s://h", "SA--"), ("//u@[::1]:8", "-A--")] {
        for suf in ["", "?q#f", "#f"] {
            let full = format!("{}{}{}", pre, path, suf);
            if !valid(Prod::RiRef, b(&full)) || model::split(b(&full)).path != t { continue; }
            let Ok(mut buf) = RiRefBuf::new(own(&full)) else { continue };
            ctx.call("path_mut().normalize");
            ctx.stratum(&format!("embedded:{}", shape));
            let r = crate::ctx::guard(|| { buf.path_mut().normalize(); let a = buf.as_bytes().to_vec(); buf.path_mut().normalize(); (a, buf.as_bytes().to_vec()) });
            match r {
                Err(m) => ctx.fail("C09.panic", c09_feats("path_mut().normalize", t, shape), format!("path_mut().normalize() on {} panicked: {}", show(b(&full)), m)),
                Ok((a, a2)) => {
                    if std::str::from_utf8(&a).is_err() || !valid(Prod::RiRef, &a) {
                        ctx.fail("C09.embedded-valid", c09_feats("path_mut().normalize", t, shape), format!("path_mut().normalize() on {} = {} which is not a valid reference", show(b(&full)), show(&a)));
                        continue;
                    }
                    let b0 = model::split(b(&full));
                    let a0 = model::split(&a);
                    if a0.scheme != b0.scheme || a0.authority != b0.authority || a0.query != b0.query || a0.fragment != b0.fragment {
                        ctx.fail("C09.frame", c09_feats("path_mut().normalize", t, shape), format!("path_mut().normalize() on {} = {} alters scheme, authority, query or fragment", show(b(&full)), show(&a)));
                        continue;
                    }
                    let (aabs, asegs) = segs_owned(a0.path);
                    let expect_abs = abs; // an authority is followed by "" or an absolute path either way
                    if aabs != expect_abs && !(b0.authority.is_some() && t.is_empty()) {
                        ctx.fail("C09.absoluteness", c09_feats("path_mut().normalize", t, shape), format!("path_mut().normalize() on {} = {} changes absoluteness of the path", show(b(&full)), show(&a)));
                    } else if !(shield_eq(&asegs, &want_seq) || a0.path == &model::render_segments(abs, &want_seq.iter().map(|x| &x[..]).collect::<Vec<_>>())[..]) {
                        ctx.fail("C09.inplace", c09_feats("path_mut().normalize", t, shape), format!("path_mut().normalize() on {} = {} (path segments {}) but the normalized sequence is {}", show(b(&full)), show(&a), segs_show(&asegs), segs_show(&want_seq)));
                    }
                    if a2 != a { ctx.fail("C09.idempotent", c09_feats("path_mut().normalize", t, shape), format!("path_mut().normalize() is not idempotent on {}: {} then {}", show(b(&full)), show(&a), show(&a2))); }
                    // the handle that normalised stays usable: what it views afterwards is the new path, and a
                    // second normalize / a push / a pop through the SAME handle leaves what fresh handles leave
                    {
                        ctx.call("one handle: normalize then view/normalize/push/pop");
                        let seg = Segment::new("zz").unwrap();
                        let one = crate::ctx::guard(|| {
                            let mut o1 = RiRefBuf::new(own(&full)).unwrap();
                            let view = { let mut pm = o1.path_mut(); pm.normalize(); let v = pm.as_bytes().to_vec(); pm.normalize(); v };
                            let mut o2 = RiRefBuf::new(own(&full)).unwrap();
                            { let mut pm = o2.path_mut(); pm.normalize(); pm.push(seg); }
                            let mut o3 = RiRefBuf::new(own(&full)).unwrap();
                            { let mut pm = o3.path_mut(); pm.normalize(); pm.pop(); }
                            (view, o1.as_bytes().to_vec(), o2.as_bytes().to_vec(), o3.as_bytes().to_vec())
                        });
                        let fresh = crate::ctx::guard(|| {
                            let mut o2 = RiRefBuf::new(own(&full)).unwrap();
                            o2.path_mut().normalize(); o2.path_mut().push(seg);
                            let mut o3 = RiRefBuf::new(own(&full)).unwrap();
                            o3.path_mut().normalize(); o3.path_mut().pop();
                            (o2.as_bytes().to_vec(), o3.as_bytes().to_vec())
                        });
                        match (one, fresh) {
                            (Err(m), _) => ctx.fail("C09.panic", c09_feats("one-handle", t, shape), format!("normalize followed by another call through the same handle on {} panicked: {}", show(b(&full)), m)),
                            (_, Err(_)) => {}
                            (Ok((view, twice, pushed, popped)), Ok((fpushed, fpopped))) => {
                                if view != a0.path { ctx.fail("C09.handle", c09_feats("one-handle view", t, shape), format!("after normalize() on {} the handle views {} but the buffer's path is {}", show(b(&full)), show(&view), show(a0.path))); }
                                if twice != a { ctx.fail("C09.handle", c09_feats("one-handle normalize twice", t, shape), format!("normalize() twice through one handle on {} leaves {}, through fresh handles {}", show(b(&full)), show(&twice), show(&a))); }
                                if pushed != fpushed { ctx.fail("C09.handle", c09_feats("one-handle normalize+push", t, shape), format!("normalize() then push through one handle on {} leaves {}, through fresh handles {}", show(b(&full)), show(&pushed), show(&fpushed))); }
                                if popped != fpopped { ctx.fail("C09.handle", c09_feats("one-handle normalize+pop", t, shape), format!("normalize() then pop through one handle on {} leaves {}, through fresh handles {}", show(b(&full)), show(&popped), show(&fpopped))); }
                            }
                        }
                    }
                    if b0.scheme.is_some() {
                        if let Ok(mut fb) = RiBuf::new(own(&full)) {
                            if let Ok(fa) = crate::ctx::guard(|| { fb.path_mut().normalize(); fb.as_bytes().to_vec() }) {
                                if fa != a { ctx.fail("C09.inplace", c09_feats("RiBuf.path_mut().normalize", t, shape), format!("RiBuf and RiRefBuf disagree on {}: {} vs {}", show(b(&full)), show(&fa), show(&a))); }
                            }
                        }
                    }
                }
            }
        }
    }
    if segs.iter().any(|s| *s == b"." || *s == b"..") { ctx.nontrivial_cur(); }
}

// =====================================================================  C10

fn seg_class(s: &[u8]) -> &'static str {
    if s.is_empty() { "empty" } else if s == b"." { "dot" } else if s == b".." { "dotdot" } else if s.contains(&b':') { "colon" } else { "plain" }
}
fn c10_feats(op: &Op, variant: &str, ctxt: &str, pre_abs: bool, pre: &[Vec<u8>]) -> Feats {
    vec![
        ("family", FAM.into()),
        ("op", op.name().into()),
        ("arg", match op { Op::Push(s) | Op::SPush(s) => seg_class(s.as_bytes()).into(), Op::SAppend(_) => "path".into(), _ => "-".into() }),
        ("variant", variant.into()),
        ("context", ctxt.into()),
        ("pre_absolute", yn(pre_abs)),
        ("pre_nsegs", match pre.len() { 0 => "0".into(), 1 => "1".into(), _ => "2+".into() }),
        ("pre_first", pre.first().map_or("none", |s| seg_class(s)).into()),
        ("pre_last", pre.last().map_or("none", |s| seg_class(s)).into()),
    ]
}

struct C10Model {
    abs: bool,
    segs: Vec<Vec<u8>>,
    /// the leading '.' currently in the text was inserted by the library as a shield during this
    /// history (so it must disappear with the segment it protects)
    lib_shield: bool,
}

/// Candidate expected segment lists for `op` (None = the statement is silent: only generic clauses).
fn c10_expect(m: &C10Model, op: &Op, follows_authority: bool, pre_raw: &[Vec<u8>]) -> Option<Vec<Vec<Vec<u8>>>> {
    let segs = &m.segs;
    let has_dots = segs.iter().any(|s| s == b"." || s == b"..");
    let v = |s: &str| s.as_bytes().to_vec();
    match op {
        Op::Push(s) => { let mut c = segs.clone(); c.push(v(s)); Some(vec![c]) }
        Op::Pop => {
            if segs.is_empty() {
                if m.abs { Some(vec![vec![]]) } else if follows_authority { Some(vec![vec![v("..")], vec![]]) } else { Some(vec![vec![v("..")]]) }
            } else if segs.last().unwrap() == b".." {
                let mut c = segs.clone(); c.push(v("..")); Some(vec![c])
            } else {
                let mut c = segs.clone(); c.pop();
                let mut out = vec![c.clone()];
                // zone (e): the popped segment sat directly behind a shield-like leading '.' that was
                // already in the text we started from (raw-list reading vs shield reading)
                if c.is_empty() && pre_raw.len() == 2 && pre_raw[0] == b"." && !m.lib_shield { out.push(vec![v(".")]); }
                Some(out)
            }
        }
        Op::Clear => Some(vec![vec![]]),
        Op::SPush(s) if s == "." || s == ".." => {
            if has_dots { return None; }
            let mut c = segs.clone();
            if s == ".." {
                if c.is_empty() { if !m.abs { c.push(v("..")); } } else { c.pop(); }
            }
            if !c.is_empty() { c.push(Vec::new()); }
            let mut out = vec![c];
            if s == ".." && segs.is_empty() && !m.abs && follows_authority { out.push(vec![]); }
            Some(out)
        }
        Op::SPush(s) => {
            let mut c = segs.clone(); c.push(v(s));
            if s.is_empty() && segs.is_empty() { Some(vec![c, segs.clone()]) } else { Some(vec![c]) }
        }
        Op::SAppend(p) => {
            let (_pabs, q) = model::segments(p.as_bytes());
            if q.is_empty() { return Some(vec![segs.clone()]); }
            if has_dots { return None; }
            let mut outs = Vec::new();
            for skip_empty_on_empty in [false, true] {
                let mut cur = segs.clone();
                for seg in &q {
                    if *seg == b"." {
                    } else if *seg == b".." {
                        match cur.last() {
                            Some(x) if x != b".." => { cur.pop(); }
                            _ => { if !m.abs { cur.push(v("..")); } }
                        }
                    } else if seg.is_empty() && cur.is_empty() && skip_empty_on_empty {
                    } else {
                        cur.push(seg.to_vec());
                    }
                }
                let open = q.last().map_or(false, |l| *l == b"." || *l == b"..");
                if open && !cur.is_empty() { cur.push(Vec::new()); }
                outs.push(cur);
            }
            Some(outs)
        }
        Op::Norm => {
            let r: Vec<&[u8]> = segs.iter().map(|x| &x[..]).collect();
            let n: Vec<Vec<u8>> = model::norm_seq(m.abs, &r).into_iter().map(|x| x.to_vec()).collect();
            let mut out = vec![n.clone()];
            if n.len() == 1 && n[0].is_empty() { out.push(vec![]); }
            Some(out)
        }
        _ => Some(vec![segs.clone()]),
    }
}

/// One observed step: (absolute?, raw segments) of the path text.
type Obs = (bool, Vec<Vec<u8>>);

fn c10_step_check(ctx: &mut Ctx, m: &mut C10Model, op: &Op, variant: &str, ctxt: &str, follows_authority: bool, pre_raw: &[Vec<u8>], view: &[u8], history: &str) -> bool {
    let (aabs, araw) = segs_owned(view);
    let pre = m.segs.clone();
    let pre_abs = m.abs;
    let feats = || c10_feats(op, variant, ctxt, pre_abs, &pre);
    if !valid(Prod::Path, view) {
        ctx.fail("C10.valid", feats(), format!("[{}] after {:?} the path is {} which is not a valid path (history {:?})", variant, op, show(view), history));
        return false;
    }
    // absoluteness: kept, except that a path following an authority is absolute as soon as it is non-empty
    let abs_ok = if follows_authority { view.is_empty() || aabs } else { aabs == m.abs };
    if !abs_ok {
        ctx.fail("C10.absoluteness", feats(), format!("[{}] after {:?} the path {} is {} but it was {} (history {:?})", variant, op, show(view), if aabs { "absolute" } else { "relative" }, if m.abs { "absolute" } else { "relative" }, history));
        return false;
    }
    if follows_authority && aabs { m.abs = true; }
    let mut expect = c10_expect(&C10Model { abs: pre_abs, segs: pre.clone(), lib_shield: m.lib_shield }, op, follows_authority, pre_raw);
    if follows_authority && !pre_abs {
        // the path is "" after an authority: it is relative as text but becomes absolute as soon as
        // it is non-empty; accept the outcome under either reading of '..'
        if let (Some(a), Some(mut b2)) = (expect.as_mut(), c10_expect(&C10Model { abs: true, segs: pre.clone(), lib_shield: m.lib_shield }, op, follows_authority, pre_raw)) {
            a.append(&mut b2);
        }
    }
    match expect {
        None => {
            ctx.stratum("zone:silent-symbolic-on-dotted-path");
            m.segs = logical(&araw);
            true
        }
        Some(cands) => {
            let la = logical(&araw);
            if let Some(c) = cands.iter().find(|c| araw == **c || la == logical(c)) {
                m.segs = logical(c);
                if la != araw && araw != *c { ctx.stratum("shield-observed"); }
                // who put the leading '.' there?
                let has_dot = araw.first().map_or(false, |s| s == b".");
                let had_dot = pre_raw.first().map_or(false, |s| s == b".");
                if !has_dot { m.lib_shield = false; } else if !had_dot { m.lib_shield = la != araw && araw != *c; }
                true
            } else {
                ctx.fail("C10.list", feats(), format!("[{}] {:?} on path with segments {} gives {} (segments {}) but list semantics give {} (history {:?})", variant, op, segs_show(&pre), show(view), segs_show(&araw), cands.iter().map(|c| segs_show(c)).collect::<Vec<_>>().join(" or "), history));
                false
            }
        }
    }
}

fn c10_abstract(abs: bool, fa: bool, segs: &[Vec<u8>]) -> String {
    format!("{}{}|{}|{}|{}", abs as u8, fa as u8, segs.len().min(3), segs.first().map_or("none", |s| seg_class(s)), segs.last().map_or("none", |s| seg_class(s)))
}

pub fn c10_history(ctx: &mut Ctx, initial: &str, ops_text: &str) {
    let ops: Vec<Op> = parse_ops(ops_text).into_iter().filter(|o| o.is_path_op() && o.args_valid()).collect();
    if ops.is_empty() { return; }
    let sp0 = model::split(b(initial));
    let fa = sp0.authority.is_some();
    let ctxt = format!("{}{}", if sp0.scheme.is_some() { "S" } else { "-" }, if fa { "A" } else { "-" });
    let (abs0, segs0) = segs_owned(sp0.path);
    ctx.stratum(&format!("context:{}", ctxt));
    ctx.stratum(&format!("history-len:{}", ops.len().min(4)));
    // ---- (1) one handle
    let Ok(mut buf) = RiRefBuf::new(own(initial)) else { ctx.stratum("skipped:rejected-by-library"); return; };
    let mut m = C10Model { abs: abs0, segs: logical(&segs0), lib_shield: false };
    let mut obs1: Vec<Obs> = Vec::new();
    let mut ok = true;
    {
        let mut pm = buf.path_mut();
        let mut pre_raw = segs0.clone();
        for op in &ops {
            ctx.call(op.name());
            let pre_state = c10_abstract(m.abs, fa, &m.segs);
            match crate::ctx::guard(|| { apply_path_op(&mut pm, op); (*pm).as_bytes().to_vec() }) {
                Err(msg) => { ctx.fail("C10.panic", c10_feats(op, "one-handle", &ctxt, m.abs, &m.segs), format!("{:?} panicked: {} (initial {}, history {:?})", op, msg, show(b(initial)), ops_text)); ok = false; break; }
                Ok(view) => {
                    if !c10_step_check(ctx, &mut m, op, "one-handle", &ctxt, fa, &pre_raw, &view, ops_text) { ok = false; break; }
                    let o = segs_owned(&view);
                    pre_raw = o.1.clone();
                    obs1.push(o);
                    ctx.set_insert("states", crate::rng::hash_bytes(c10_abstract(m.abs, fa, &m.segs).as_bytes()));
                    ctx.set_insert("transitions", crate::rng::hash_bytes(format!("{}>{}:{}", pre_state, op.name(), match op { Op::Push(s) | Op::SPush(s) => seg_class(s.as_bytes()), _ => "-" }).as_bytes()));
                }
            }
        }
    }
    if ok {
        // frame + handle view == path of the buffer after drop
        let after = buf.as_bytes().to_vec();
        let f = || c10_feats(&ops[ops.len() - 1], "one-handle", &ctxt, m.abs, &m.segs);
        if std::str::from_utf8(&after).is_err() || !valid(Prod::RiRef, &after) {
            ctx.fail("C10.frame", f(), format!("after {:?} on {} the buffer is {} which is not a valid reference", ops_text, show(b(initial)), show(&after)));
            ok = false;
        } else {
            let asp = model::split(&after);
            if asp.scheme != sp0.scheme || asp.authority != sp0.authority || asp.query != sp0.query || asp.fragment != sp0.fragment {
                ctx.fail("C10.frame", f(), format!("after {:?} on {} the buffer is {}: scheme, authority, query or fragment changed", ops_text, show(b(initial)), show(&after)));
                ok = false;
            } else if let Some(last) = obs1.last() {
                if segs_owned(asp.path) != *last {
                    ctx.fail("C10.handle-view", f(), format!("after {:?} on {} the handle viewed segments {} but the buffer's path is {}", ops_text, show(b(initial)), segs_show(&last.1), show(asp.path)));
                    ok = false;
                }
            }
        }
    }
    // ---- (2) fresh handle per call
    if let Ok(mut buf2) = RiRefBuf::new(own(initial)) {
        let mut m2 = C10Model { abs: abs0, segs: logical(&segs0), lib_shield: false };
        let mut pre_raw = segs0.clone();
        for (i, op) in ops.iter().enumerate() {
            match crate::ctx::guard(|| { buf2.path_mut_apply(op); buf2.as_bytes().to_vec() }) {
                Err(msg) => { ctx.fail("C10.panic", c10_feats(op, "fresh-handle", &ctxt, m2.abs, &m2.segs), format!("{:?} through a fresh handle panicked: {} (initial {}, history {:?})", op, msg, show(b(initial)), ops_text)); break; }
                Ok(after) => {
                    if std::str::from_utf8(&after).is_err() || !valid(Prod::RiRef, &after) {
                        ctx.fail("C10.frame", c10_feats(op, "fresh-handle", &ctxt, m2.abs, &m2.segs), format!("{:?} (step {}) on {} leaves {} which is not a valid reference (history {:?})", op, i + 1, show(b(initial)), show(&after), ops_text));
                        break;
                    }
                    let asp = model::split(&after);
                    if asp.scheme != sp0.scheme || asp.authority != sp0.authority || asp.query != sp0.query || asp.fragment != sp0.fragment {
                        ctx.fail("C10.frame", c10_feats(op, "fresh-handle", &ctxt, m2.abs, &m2.segs), format!("{:?} (step {}) on {} leaves {}: scheme, authority, query or fragment changed (history {:?})", op, i + 1, show(b(initial)), show(&after), ops_text));
                        break;
                    }
                    if !c10_step_check(ctx, &mut m2, op, "fresh-handle", &ctxt, fa, &pre_raw, asp.path, ops_text) { break; }
                    let o = segs_owned(asp.path);
                    pre_raw = o.1.clone();
                    if ok && i < obs1.len() && (logical(&o.1) != logical(&obs1[i].1) || o.0 != obs1[i].0) {
                        ctx.fail("C10.compose", c10_feats(op, "fresh-vs-one-handle", &ctxt, m2.abs, &m2.segs), format!("step {} ({:?}) of {:?} on {}: one handle gives segments {}, a fresh handle per call gives {}", i + 1, op, ops_text, show(b(initial)), segs_show(&obs1[i].1), segs_show(&o.1)));
                        break;
                    }
                }
            }
        }
    }
    // ---- (3) stand-alone path buffer
    if let Ok(path0) = std::str::from_utf8(sp0.path) {
        let path0 = if fa && path0.is_empty() { "/" } else { path0 };
        if let Ok(mut pb) = PathBuf::new(own(path0)) {
            let mut m3 = C10Model { abs: abs0 || fa, segs: logical(&segs0), lib_shield: false };
            let mut pre_raw = segs0.clone();
            for (i, op) in ops.iter().enumerate() {
                match crate::ctx::guard(|| { apply_pathbuf_op(&mut pb, op); pb.as_bytes().to_vec() }) {
                    Err(msg) => { ctx.fail("C10.panic", c10_feats(op, "standalone", "path", m3.abs, &m3.segs), format!("PathBuf {:?} panicked: {} (initial path {}, history {:?})", op, msg, show(sp0.path), ops_text)); break; }
                    Ok(view) => {
                        if !c10_step_check(ctx, &mut m3, op, "standalone", "path", false, &pre_raw, &view, ops_text) { break; }
                        let o = segs_owned(&view);
                        pre_raw = o.1.clone();
                        if ok && i < obs1.len() && (logical(&o.1) != logical(&obs1[i].1) || (!fa && o.0 != obs1[i].0)) {
                            // zone (f): pop on an empty path after an authority may or may not append '..'
                            let zone_f = fa && matches!(op, Op::Pop | Op::SPush(_) | Op::SAppend(_));
                            if !zone_f {
                                ctx.fail("C10.compose", c10_feats(op, "standalone-vs-embedded", &ctxt, m3.abs, &m3.segs), format!("step {} ({:?}) of {:?}: embedded in {} the path has segments {}, the stand-alone PathBuf {} has {}", i + 1, op, ops_text, show(b(initial)), segs_show(&obs1[i].1), show(sp0.path), segs_show(&o.1)));
                            }
                            break;
                        }
                    }
                }
            }
        }
    }
    // ---- RiBuf takes the same code path
    if sp0.scheme.is_some() && ok {
        if let Ok(mut fb) = RiBuf::new(own(initial)) {
            if let Ok(t) = crate::ctx::guard(|| { { let mut pm = fb.path_mut(); for op in &ops { apply_path_op(&mut pm, op); } } fb.as_bytes().to_vec() }) {
                if t != buf.as_bytes() {
                    ctx.fail("C10.compose", c10_feats(&ops[0], "RiBuf-vs-RiRefBuf", &ctxt, abs0, &segs0), format!("{:?} on {}: RiBuf gives {}, RiRefBuf gives {}", ops_text, show(b(initial)), show(&t), show(buf.as_bytes())));
                }
            }
        }
    }
    ctx.nontrivial_cur();
}

trait PathMutApply { fn path_mut_apply(&mut self, op: &Op); }
impl PathMutApply for RiRefBuf {
    fn path_mut_apply(&mut self, op: &Op) { let mut pm = self.path_mut(); apply_path_op(&mut pm, op); }
}

// =====================================================================  C06

fn c06_feats(t: &model::Target, entry: &str, base: &[u8], reference: &[u8]) -> Feats {
    let bsp = model::split(base);
    let rsp = model::split(reference);
    let (_a, rsegs) = model::segments(rsp.path);
    let ambiguous = t.authority.is_none() && t.path.starts_with(b"//");
    vec![
        ("family", FAM.into()),
        ("entry", entry.into()),
        ("branch", t.branch.into()),
        ("base_has_authority", yn(bsp.authority.is_some())),
        ("ref_last_is_dot", yn(rsegs.last().map_or(false, |s| *s == b"." || *s == b".."))),
        ("target_ambiguous", yn(ambiguous)),
        ("target_path_leading_empty", yn(t.path.starts_with(b"//") || t.zone_a)),
        ("empty_on_empty", yn(t.empty_on_empty)),
        ("base_path", path_form(bsp.path).into()),
    ]
}

/// Is the library's output exactly what the recorded C06 finding predicts (RFC scheme, authority,
/// query and fragment; the path of `model::quirk_merge`)?  Anything else in that class is a
/// different violation and must not be absorbed by the finding.
fn c06_matches_quirk(t: &model::Target, base: &[u8], reference: &[u8], got: &[u8]) -> bool {
    if !(t.branch == "relative-path" && t.empty_on_empty) { return false; }
    let g = model::split(got);
    if g.scheme != Some(&t.scheme[..]) || g.authority != t.authority.as_deref() || g.query != t.query.as_deref() || g.fragment != t.fragment.as_deref() { return false; }
    let (qabs, qsegs) = model::quirk_merge(base, reference);
    let (gabs, gsegs) = segs_owned(g.path);
    // an authority makes every non-empty path absolute
    let qabs = qabs || (t.authority.is_some() && !qsegs.is_empty());
    // a shield ('/.' before an empty first segment) is only read as such where it is needed: never
    // behind an authority
    let gl = if t.authority.is_some() { gsegs.clone() } else { logical(&gsegs) };
    (gabs == qabs || (qsegs.is_empty() && gsegs.is_empty())) && gl == qsegs
}

/// Returns the text all entry points agreed on (for the cross-family comparison).
pub fn c06(ctx: &mut Ctx, base: &str, reference: &str) -> Option<Vec<u8>> {
    let (Ok(bi), Ok(r)) = (Ri::new(base), RiRef::new(reference)) else { ctx.stratum("skipped:rejected-by-library"); return None; };
    let t = model::resolve(b(base), b(reference));
    let rec = t.recompose();
    let resplit = model::split(&rec);
    let unambiguous = resplit.scheme == Some(&t.scheme[..]) && resplit.authority == t.authority.as_deref() && resplit.path == &t.path[..] && resplit.query == t.query.as_deref() && resplit.fragment == t.fragment.as_deref();
    ctx.stratum(&format!("branch:{}", t.branch));
    let rsp = model::split(b(reference));
    let (_ra, rsegs) = model::segments(rsp.path);
    let last_dot = rsegs.last().map_or(false, |s| *s == b"." || *s == b"..");
    ctx.stratum(&format!("branch:{}:last-dot-{}", t.branch, yn(last_dot)));
    if !unambiguous { ctx.stratum("target:ambiguous"); }
    if t.zone_a { ctx.stratum("target:zone-a"); }
    ctx.stratum(if model::split(b(base)).authority.is_some() { "base:authority" } else { "base:no-authority" });
    // run the three entry points
    let f = |e: &str| c06_feats(&t, e, b(base), b(reference));
    ctx.call("resolved");
    let a = match crate::ctx::guard(|| r.resolved(bi).as_bytes().to_vec()) { Ok(x) => x, Err(m) => { ctx.fail("C06.panic", f("resolved"), format!("resolved({}, base {}) panicked: {}", show(b(reference)), show(b(base)), m)); return None; } };
    ctx.call("resolve");
    let bb = match crate::ctx::guard(|| { let mut o = r.to_owned(); o.resolve(bi); o.as_bytes().to_vec() }) { Ok(x) => x, Err(m) => { ctx.fail("C06.panic", f("resolve"), format!("resolve in place ({}, base {}) panicked: {}", show(b(reference)), show(b(base)), m)); return None; } };
    ctx.call("into_resolved");
    let c = match crate::ctx::guard(|| r.to_owned().into_resolved(bi).as_bytes().to_vec()) { Ok(x) => x, Err(m) => { ctx.fail("C06.panic", f("into_resolved"), format!("into_resolved panicked: {}", m)); return None; } };
    if bi.as_bytes() != b(base) {
        ctx.fail("C06.base", f("resolved"), "the base was modified".into());
    }
    if a != bb || a != c {
        ctx.fail("C06.entry-points", f("all"), format!("{} against {}: resolved() = {}, resolve() = {}, into_resolved() = {}", show(b(reference)), show(b(base)), show(&a), show(&bb), show(&c)));
    }
    // the in-place entry points again on a buffer with spare capacity (no reallocation while splicing)
    if let Ok(spare) = RiRefBuf::new(own_spare(reference)) {
        match crate::ctx::guard(|| { let mut o = RiRefBuf::new(own_spare(reference)).unwrap(); o.resolve(bi); (o.as_bytes().to_vec(), spare.into_resolved(bi).as_bytes().to_vec()) }) {
            Ok((d1, d2)) => if d1 != a || d2 != a {
                ctx.fail("C06.entry-points", f("all"), format!("{} against {}: with spare capacity resolve() = {}, into_resolved() = {}, resolved() = {}", show(b(reference)), show(b(base)), show(&d1), show(&d2), show(&a)));
            },
            Err(m) => ctx.fail("C06.panic", f("resolve"), format!("resolve in place with spare capacity ({}, base {}) panicked: {}", show(b(reference)), show(b(base)), m)),
        }
    }
    let detail = |got: &[u8]| format!("{} resolved against {}: library {} ; RFC 3986 5.2 target {} (branch {})", show(b(reference)), show(b(base)), show(got), show(&rec), t.branch);
    // features of a path deviation carry whether it is exactly the recorded deviation
    let quirk = c06_matches_quirk(&t, b(base), b(reference), &a);
    let f = |e: &str| { let mut v = c06_feats(&t, e, b(base), b(reference)); v.push(("matches_recorded_deviation", yn(quirk))); v };
    if std::str::from_utf8(&a).is_err() || !valid(Prod::Ri, &a) {
        ctx.fail("C06.valid", f("resolved"), format!("{} - not a valid URI/IRI", detail(&a)));
        return Some(a);
    }
    if unambiguous && !t.zone_a {
        if a != rec {
            ctx.fail("C06.target", f("resolved"), detail(&a));
        }
    } else {
        // ambiguous RFC target (or don't-care zone (a)): same scheme/authority/query/fragment, path modulo shield
        let asp = model::split(&a);
        if asp.scheme != Some(&t.scheme[..]) || asp.authority != t.authority.as_deref() || asp.query != t.query.as_deref() || asp.fragment != t.fragment.as_deref() {
            ctx.fail("C06.target", f("resolved"), format!("{} - scheme, authority, query or fragment differ from the RFC target's", detail(&a)));
        } else if t.zone_a {
            // the expected relative sequence starts with an empty segment: its text rendering is not
            // faithful, compare logical segment sequences instead
            let (aabs, as_) = segs_owned(asp.path);
            if a != rec && (aabs || logical(&as_) != logical(&t.path_segs)) {
                ctx.fail("C06.target", f("resolved"), format!("{} - path segments {} vs expected relative {}", detail(&a), segs_show(&as_), segs_show(&t.path_segs)));
            }
        } else if !model::path_matches_shielded(asp.path, &t.path, true, t.authority.is_some()) {
            ctx.fail("C06.target", f("resolved"), format!("{} - the path is not an unambiguous rendering of the RFC path {}", detail(&a), show(&t.path)));
        }
    }
    ctx.nontrivial_cur();
    Some(a)
}

// =====================================================================  C04

fn c04_feats(buffer: &str, route: &str, op: &Op, before: &[u8]) -> Feats {
    let mut f: Feats = vec![
        ("family", FAM.into()),
        ("buffer", buffer.into()),
        ("route", route.into()),
        ("op", op.name().into()),
        ("arg", match op {
            Op::SetScheme(None) | Op::SetAuthority(None) | Op::SetQuery(None) | Op::SetFragment(None) | Op::SetUserinfo(None) | Op::SetPort(None) => "remove".into(),
            Op::Push(s) | Op::SPush(s) => seg_class(s.as_bytes()).into(),
            Op::SetPath(p) | Op::SAppend(p) => format!("{}:{}", path_form(p.as_bytes()), first_seg_class(p.as_bytes())),
            _ => "set".into(),
        }),
    ];
    f.extend(state_feats(before));
    f
}

/// Tripwire consumers: give a broken `str` invariant a chance to become detectable.
fn c04_tripwires(text: &[u8]) -> u64 {
    use std::hash::{Hash, Hasher};
    let mut acc = 0u64;
    if let Ok(s) = std::str::from_utf8(text) {
        acc += s.chars().count() as u64;
        acc += s.to_string().len() as u64;
        acc += format!("{:?}", s).len() as u64;
        let mut h = std::collections::hash_map::DefaultHasher::new();
        s.hash(&mut h);
        acc ^= h.finish();
    }
    acc
}

/// Invariant at the boundary after one call on a reference buffer.
fn c04_check_ref(ctx: &mut Ctx, feats: &dyn Fn() -> Feats, text: &[u8], full: bool, what: &str) -> bool {
    let prod = if full { Prod::Ri } else { Prod::RiRef };
    let Ok(t) = std::str::from_utf8(text) else {
        ctx.fail("C04.utf8", feats(), format!("{}: the buffer is not well-formed UTF-8: {}", what, show(text)));
        return false;
    };
    if !valid(prod, text) {
        ctx.fail("C04.reparse", feats(), format!("{}: the buffer {} is not a valid {} (RFC model)", what, show(text), if full { "URI/IRI" } else { "reference" }));
        return false;
    }
    let lib_ok = if full { Ri::new(t).is_ok() } else { RiRef::new(t).is_ok() };
    if !lib_ok {
        ctx.fail("C04.reparse", feats(), format!("{}: the library's own checked constructor rejects the buffer {}", what, show(text)));
        return false;
    }
    true
}

/// Every accessor of C02/C03/C12 on the (valid) result, under a guard.
fn c04_accessors(ctx: &mut Ctx, feats: &dyn Fn() -> Feats, text: &str) {
    let v0 = ctx.violation_count;
    let r = crate::ctx::guard(std::panic::AssertUnwindSafe(|| {
        let _ = c04_tripwires(text.as_bytes());
    }));
    if let Err(m) = r { ctx.fail("C04.accessor-panic", feats(), format!("a consumer panicked on {}: {}", show(text.as_bytes()), m)); }
    c02(ctx, text);
    if let Some(a) = model::split(text.as_bytes()).authority {
        if let Ok(at) = std::str::from_utf8(a) { c03(ctx, at); }
    }
    if let Ok(pt) = std::str::from_utf8(model::split(text.as_bytes()).path) {
        c12_queries(ctx, pt);
        c12_interleave(ctx, pt, 0xA5A5_5A5A_3C3C_C3C3);
    }
    let _ = v0;
}

/// Second pass over a history: maximal runs of consecutive authority edits share ONE AuthorityMut
/// handle and maximal runs of path edits share ONE PathMut handle ("any finite sequence of safe
/// mutating calls ... through the authority handle"); the invariant is checked whenever the handle
/// is dropped (the buffer cannot be observed while it is mutably borrowed).
macro_rules! c04_grouped {
    ($ctx:expr, $buf:expr, $ops:expr, $full:expr, $bname:expr, $rname:expr, $initial:expr, $ops_text:expr) => {{
        let ops: &Vec<Op> = $ops;
        let mut i = 0usize;
        while i < ops.len() {
            let before = $buf.as_bytes().to_vec();
            let mut j = i + 1;
            let auth = ops[i].is_auth_op();
            let path = ops[i].is_path_op();
            if auth { while j < ops.len() && ops[j].is_auth_op() { j += 1; } }
            if path { while j < ops.len() && ops[j].is_path_op() { j += 1; } }
            let group = &ops[i..j];
            let skip = $full && group.iter().any(|o| matches!(o, Op::SetScheme(None) | Op::Resolve(_)));
            if !skip {
                let last = &group[group.len() - 1];
                let f = || { let mut v = c04_feats($bname, $rname, last, &before); v.push(("handle", if group.len() > 1 { "one-handle-for-run".into() } else { "single".into() })); v };
                $ctx.call("grouped-handle run");
                if group.len() > 1 { $ctx.stratum("handle:shared-by-run"); }
                let r = crate::ctx::guard(|| {
                    if auth {
                        if let Some(mut am) = $buf.authority_mut() { for op in group { apply_auth_op(&mut am, op); } }
                    } else if path {
                        let mut pm = $buf.path_mut();
                        for op in group { apply_path_op(&mut pm, op); }
                    } else {
                        c04_apply_single(&mut $buf, &group[0]);
                    }
                });
                if let Err(m) = r {
                    $ctx.fail("C04.panic", f(), format!("run {:?} through one handle on {} panicked: {} (initial {}, history {:?})", group, show(&before), m, show($initial), $ops_text));
                    break;
                }
                let after = $buf.as_bytes().to_vec();
                if !c04_check_ref($ctx, &f, &after, $full, &format!("run {:?} through one handle on {} (initial {}, history {:?})", group, show(&before), show($initial), $ops_text)) { break; }
            }
            i = j;
        }
    }};
}

trait C04Single { fn c04_single(&mut self, op: &Op); }
impl C04Single for RiRefBuf { fn c04_single(&mut self, op: &Op) { apply_ref_op(self, op); } }
impl C04Single for RiBuf { fn c04_single(&mut self, op: &Op) { apply_full_op(self, op); } }
fn c04_apply_single<T: C04Single>(b: &mut T, op: &Op) { b.c04_single(op) }

/// kind: 0 = RiRefBuf, 1 = RiBuf, 2 = PathBuf.  route: how the initial buffer is obtained.
pub fn c04_history(ctx: &mut Ctx, initial: &str, ops_text: &str, kind: u64, route: u64) {
    let ops: Vec<Op> = parse_ops(ops_text).into_iter().filter(|o| o.args_valid()).collect();
    if ops.is_empty() { return; }
    ctx.stratum(&format!("history-len:{}", ops.len().min(4)));
    match kind {
        0 => {
            let (mut buf, rname) = match route {
                1 => (RiRefBuf::default(), "default"),
                2 => match RiRefBuf::new(own(initial)) { Ok(b) => (b.clone().to_owned(), "cloned"), Err(_) => return },
                3 => match RiBuf::new(own(initial)) { Ok(b) => (RiRefBuf::from(b), "converted-from-full"), Err(_) => return },
                4 => match RiRefBuf::new(own_spare(initial)) { Ok(b) => (b, "parsed-spare-capacity"), Err(_) => return },
                _ => match RiRefBuf::new(own(initial)) { Ok(b) => (b, "parsed"), Err(_) => return },
            };
            ctx.stratum("buffer:RiRefBuf");
            ctx.stratum(&format!("route:{}", rname));
            {
                let mut gbuf = buf.clone();
                c04_grouped!(ctx, gbuf, &ops, false, "RiRefBuf", rname, b(initial), ops_text);
            }
            for (i, op) in ops.iter().enumerate() {
                let before = buf.as_bytes().to_vec();
                let f = || c04_feats("RiRefBuf", rname, op, &before);
                ctx.call(op.name());
                ctx.stratum(&format!("op:{}", op.name()));
                let pre_state = state_hash(&before);
                if let Err(m) = crate::ctx::guard(|| apply_ref_op(&mut buf, op)) {
                    ctx.fail("C04.panic", f(), format!("step {}: {:?} on {} panicked: {} (initial {}, history {:?})", i + 1, op, show(&before), m, show(b(initial)), ops_text));
                    return;
                }
                let after = buf.as_bytes().to_vec();
                if !c04_check_ref(ctx, &f, &after, false, &format!("step {}: {:?} on {} (initial {}, history {:?})", i + 1, op, show(&before), show(b(initial)), ops_text)) { return; }
                let t = String::from_utf8(after.clone()).unwrap();
                c04_accessors(ctx, &f, &t);
                ctx.set_insert("states", state_hash(&after));
                ctx.set_insert("transitions", crate::rng::mix(pre_state ^ crate::rng::hash_bytes(format!("{}|{:?}", op.name(), f().get(4)).as_bytes())));
            }
        }
        1 => {
            let (mut buf, rname) = match route {
                1 => match Scheme::new(model::split(b(initial)).scheme.unwrap_or(b"s")) { Ok(s) => (RiBuf::from_scheme(s.to_owned()), "from_scheme"), Err(_) => return },
                2 => match RiRefBuf::new(own(initial)) { Ok(r) => match r.try_into_full() { Ok(f) => (f, "converted-from-reference"), Err(_) => return }, Err(_) => return },
                _ => match RiBuf::new(own(initial)) { Ok(b) => (b, "parsed"), Err(_) => return },
            };
            ctx.stratum("buffer:RiBuf");
            ctx.stratum(&format!("route:{}", rname));
            {
                let mut gbuf = buf.clone();
                c04_grouped!(ctx, gbuf, &ops, true, "RiBuf", rname, b(initial), ops_text);
            }
            for (i, op) in ops.iter().enumerate() {
                if matches!(op, Op::SetScheme(None) | Op::Resolve(_)) { continue; }
                let before = buf.as_bytes().to_vec();
                let f = || c04_feats("RiBuf", rname, op, &before);
                ctx.call(op.name());
                if let Err(m) = crate::ctx::guard(|| { apply_full_op(&mut buf, op); }) {
                    ctx.fail("C04.panic", f(), format!("step {}: RiBuf {:?} on {} panicked: {} (initial {}, history {:?})", i + 1, op, show(&before), m, show(b(initial)), ops_text));
                    return;
                }
                let after = buf.as_bytes().to_vec();
                if !c04_check_ref(ctx, &f, &after, true, &format!("step {}: RiBuf {:?} on {} (initial {}, history {:?})", i + 1, op, show(&before), show(b(initial)), ops_text)) { return; }
                let t = String::from_utf8(after).unwrap();
                c04_accessors(ctx, &f, &t);
            }
        }
        _ => {
            let (mut pb, rname) = match route {
                1 => (PathBuf::default(), "default"),
                _ => match PathBuf::new(own(initial)) { Ok(p) => (p, "parsed"), Err(_) => return },
            };
            ctx.stratum("buffer:PathBuf");
            ctx.stratum(&format!("route:{}", rname));
            for (i, op) in ops.iter().enumerate() {
                if !op.is_path_op() { continue; }
                let before = pb.as_bytes().to_vec();
                let f = || c04_feats("PathBuf", rname, op, &before);
                ctx.call(op.name());
                if let Err(m) = crate::ctx::guard(|| apply_pathbuf_op(&mut pb, op)) {
                    ctx.fail("C04.panic", f(), format!("step {}: PathBuf {:?} on {} panicked: {} (initial {}, history {:?})", i + 1, op, show(&before), m, show(b(initial)), ops_text));
                    return;
                }
                let after = pb.as_bytes().to_vec();
                let what = format!("step {}: PathBuf {:?} on {} (initial {}, history {:?})", i + 1, op, show(&before), show(b(initial)), ops_text);
                let Ok(t) = std::str::from_utf8(&after) else { ctx.fail("C04.utf8", f(), format!("{}: not UTF-8: {}", what, show(&after))); return; };
                if !valid(Prod::Path, &after) || Path::new(t).is_err() {
                    ctx.fail("C04.reparse", f(), format!("{}: the buffer {} is not a valid path", what, show(&after)));
                    return;
                }
                let _ = c04_tripwires(&after);
                c12_queries(ctx, t);
                c12_interleave(ctx, t, 0x0F0F_F0F0_1234_8421);
            }
        }
    }
    ctx.nontrivial_cur();
}

// =====================================================================  C15

/// Is the value given by components the nearest dot-free value to `a` when a's normalised sequence
/// cannot be spelled without dots (lone empty segment -> no segment; final '..' -> followed by the
/// empty segment of a trailing '/')?  False when a is spellable.
fn c15_nearest(a: &[u8], scheme: Option<&[u8]>, authority: Option<&[u8]>, zabs: bool, zsegs: &[&[u8]], query: Option<&[u8]>, fragment: Option<&[u8]>) -> bool {
    let sa = model::split(a);
    let (aabs, asg) = model::segments(sa.path);
    let an = model::norm_seq(aabs, &asg);
    let lone_empty = an.len() == 1 && an[0].is_empty();
    let ends_dotdot = an.last().map_or(false, |l| *l == b"..");
    if !lone_empty && !ends_dotdot { return false; }
    let zn = model::norm_seq(zabs, zsegs);
    let mut want: Vec<&[u8]> = if lone_empty { Vec::new() } else { an.clone() };
    if ends_dotdot { want.push(b""); }
    let comps = sa.scheme == scheme
        && match (sa.authority, authority) { (None, None) => true, (Some(p), Some(q)) => model::eq_authority(p, q), _ => false }
        && model::eq_opt_component(sa.query, query) && model::eq_opt_component(sa.fragment, fragment);
    comps && (aabs == zabs || want.is_empty()) && want.len() == zn.len() && want.iter().zip(zn.iter()).all(|(x, y)| model::eq_component(x, y))
}

fn c15_feats(a: &[u8], bb: &[u8]) -> Feats {
    let x = model::split(a);
    let y = model::split(bb);
    let (xa, xs) = model::segments(x.path);
    let (ya, ys) = model::segments(y.path);
    let xn = model::norm_seq(xa, &xs);
    let ydir: Vec<&[u8]> = if ys.is_empty() { vec![] } else { ys[..ys.len() - 1].to_vec() };
    let yn_ = model::norm_seq(ya, &ydir);
    let common = xn.iter().zip(yn_.iter()).take_while(|(p, q)| model::eq_component(p, q)).count();
    let relation = if xa != ya { "absoluteness-differs" } else if common == yn_.len() && xn.len() > common { "below-base-dir" } else if common == yn_.len() { "is-base-dir" } else if common == xn.len() { "above-base-dir" } else { "beside" };
    let dotty = |s: &[&[u8]]| s.iter().any(|t| *t == b"." || *t == b".." || t.is_empty());
    vec![
        ("family", FAM.into()),
        ("same_scheme", yn(x.scheme == y.scheme)),
        ("a_authority", yn(x.authority.is_some())),
        ("b_authority", yn(y.authority.is_some())),
        ("same_authority", yn(match (x.authority, y.authority) { (Some(p), Some(q)) => model::eq_authority(p, q), (None, None) => true, _ => false })),
        ("relation", relation.into()),
        ("a_path", path_form(x.path).into()),
        ("b_path", path_form(y.path).into()),
        ("a_query", yn(x.query.is_some())),
        ("a_fragment", yn(x.fragment.is_some())),
        ("b_query", yn(y.query.is_some())),
        ("dot_or_empty_segments", yn(dotty(&xs) || dotty(&ys))),
        ("a_trailing_slash", yn(x.path.len() > 1 && x.path.ends_with(b"/"))),
        // sequences that no dot-free text spells: a lone empty segment, or a relative sequence ending in '..'
        // (RFC 3986 5.2.4 always leaves a '/' after a final '..')
        ("a_norm_unspellable", yn((xn.len() == 1 && xn[0].is_empty()) || xn.last().map_or(false, |l| *l == b".."))),
    ]
}

pub fn c15(ctx: &mut Ctx, a: &str, bb: &str) {
    let (Ok(x), Ok(y)) = (Ri::new(a), Ri::new(bb)) else { ctx.stratum("skipped:rejected-by-library"); return; };
    let f = || c15_feats(b(a), b(bb));
    for (k, v) in f() { if k == "relation" || k == "same_scheme" || k == "same_authority" { ctx.stratum(&format!("{}:{}", k, v)); } }
    ctx.call("relative_to");
    let yr: &RiRef = y.as_ref();
    let rel = match crate::ctx::guard(|| x.relative_to(yr).as_bytes().to_vec()) {
        Ok(r) => r,
        Err(m) => { ctx.fail("C15.panic", f(), format!("{}.relative_to({}) panicked: {}", show(b(a)), show(b(bb)), m)); return; }
    };
    let Ok(rt) = std::str::from_utf8(&rel) else { ctx.fail("C15.valid", f(), format!("{}.relative_to({}) is not UTF-8", show(b(a)), show(b(bb)))); return; };
    if !valid(Prod::RiRef, &rel) || RiRef::new(rt).is_err() {
        ctx.fail("C15.valid", f(), format!("{}.relative_to({}) = {} is not a valid reference", show(b(a)), show(b(bb)), show(&rel)));
        return;
    }
    // the reference-typed entry point must agree
    let xr: &RiRef = x.as_ref();
    match crate::ctx::guard(|| xr.relative_to(yr).as_bytes().to_vec()) {
        Ok(r2) => if r2 != rel { ctx.fail("C15.entry-points", f(), format!("Ri::relative_to gives {}, RiRef::relative_to gives {}", show(&rel), show(&r2))); },
        Err(m) => ctx.fail("C15.panic", f(), format!("RiRef::relative_to panicked: {}", m)),
    }
    let r = RiRef::new(rt).unwrap();
    // does resolving the produced reference run into the known C06 finding (an empty segment met on an empty output)?
    let tm = model::resolve(b(bb), &rel);
    // ... which explains a failed round trip only if the reference itself is right (its RFC resolution
    // is the target) and the library's resolution is exactly the recorded deviation
    let rel_is_right = model::eq_target(&tm, b(a)) || {
        // ... or, when a cannot be spelled without dots, the nearest spellable value
        let tsegs: Vec<&[u8]> = if tm.zone_a { tm.path_segs.iter().map(|x| &x[..]).collect() } else { model::segments(&tm.path).1 };
        let tabs = if tm.zone_a { false } else { model::segments(&tm.path).0 };
        c15_nearest(b(a), Some(&tm.scheme[..]), tm.authority.as_deref(), tabs, &tsegs, tm.query.as_deref(), tm.fragment.as_deref())
    };
    let in_c06_class = tm.branch == "relative-path" && tm.empty_on_empty && rel_is_right;
    let f = || { let mut v = c15_feats(b(a), b(bb)); v.push(("resolution_hits_c06_finding", "no".into())); v };
    ctx.call("resolved");
    match crate::ctx::guard(|| { let z = r.resolved(y); (z.as_bytes().to_vec(), *z == *x) }) {
        Err(m) => ctx.fail("C15.panic", f(), format!("resolving {} against {} panicked: {}", show(&rel), show(b(bb)), m)),
        Ok((z, lib_eq)) => {
            let model_eq = model::eq_ref(&z, b(a));
            let hits_c06 = in_c06_class && c06_matches_quirk(&tm, b(bb), &rel, &z);
            // when a's normalised sequence cannot be spelled without dots (a lone empty segment, or a
            // final '..'), the best a reference can do is the nearest dot-free value: no segment at all,
            // resp. the same sequence followed by the empty segment of the trailing '/'
            let best = { let sz = model::split(&z); let (zabs, zsg) = model::segments(sz.path); c15_nearest(b(a), sz.scheme, sz.authority, zabs, &zsg, sz.query, sz.fragment) };
            let f = || { let mut v = c15_feats(b(a), b(bb)); v.push(("resolution_hits_c06_finding", yn(hits_c06))); v.push(("resolves_to_nearest_spellable_value", yn(best))); v };
            if !model_eq || !lib_eq {
                ctx.fail("C15.roundtrip", f(), format!("a = {}, b = {}: a.relative_to(b) = {} which resolves against b to {} (model ==: {}, library ==: {})", show(b(a)), show(b(bb)), show(&rel), show(&z), model_eq, lib_eq));
            }
        }
    }
    if x.as_bytes() != b(a) || y.as_bytes() != b(bb) { ctx.fail("C15.unchanged", f(), "an argument was modified".into()); }
    ctx.nontrivial_cur();
}

// =====================================================================  C16

fn c16_feats(kind: &str, value: &[u8], prefix: &[u8], want_some: bool) -> Feats {
    vec![
        ("family", FAM.into()),
        ("kind", kind.into()),
        ("expected", if want_some { "some".into() } else { "none".into() }),
        ("octets", octet_class(&[value, prefix]).into()),
        ("value_path", path_form(model::split(value).path).into()),
    ]
}

/// Model: remaining normalized segments of `value` after `prefix`, or None.
fn c16_model_suffix(vpath: &[u8], ppath: &[u8]) -> Option<Vec<Vec<u8>>> {
    let (va, vs) = model::segments(vpath);
    let (pa, ps) = model::segments(ppath);
    if va != pa { return None; }
    let vn = model::norm_seq(va, &vs);
    let pn = model::norm_seq(pa, &ps);
    if pn.len() > vn.len() { return None; }
    for i in 0..pn.len() {
        if !model::eq_component(pn[i], vn[i]) { return None; }
    }
    Some(vn[pn.len()..].iter().map(|x| x.to_vec()).collect())
}

fn c16_check_suffix_path(ctx: &mut Ctx, kind: &str, value: &[u8], prefix: &[u8], vpath: &[u8], ppath: &[u8], want: &Option<Vec<Vec<u8>>>, got: Option<&[u8]>) {
    let f = || c16_feats(kind, value, prefix, want.is_some());
    match (want, got) {
        (None, None) => { ctx.stratum("suffix:none"); }
        (Some(w), None) => ctx.fail("C16.suffix-exists", f(), format!("{}: suffix of {} w.r.t. {} is None but the prefix's normalized segments lead the value's (remaining {})", kind, show(value), show(prefix), segs_show(w))),
        (None, Some(g)) => ctx.fail("C16.suffix-exists", f(), format!("{}: suffix of {} w.r.t. {} is {} but the prefix is not a leading part", kind, show(value), show(prefix), show(g))),
        (Some(w), Some(g)) => {
            ctx.stratum("suffix:some");
            if !valid(Prod::Path, g) {
                ctx.fail("C16.suffix-path", f(), format!("{}: suffix {} is not a valid path", kind, show(g)));
                return;
            }
            let (_ga, gs) = segs_owned(g);
            let eq = |a: &[Vec<u8>], bb: &[Vec<u8>]| a.len() == bb.len() && a.iter().zip(bb.iter()).all(|(x, y)| model::eq_component(x, y));
            if !(eq(&gs, w) || eq(&logical(&gs), w)) {
                ctx.fail("C16.suffix-path", f(), format!("{}: suffix of {} w.r.t. {} is {} (segments {}) but the remaining segments are {}", kind, show(value), show(prefix), show(g), segs_show(&gs), segs_show(w)));
                return;
            }
            // prefix ++ suffix is equal to the original path
            let (pa, ps) = model::segments(ppath);
            let mut joined: Vec<Vec<u8>> = model::norm_seq(pa, &ps).into_iter().map(|x| x.to_vec()).collect();
            joined.extend(logical(&gs));
            let jt = model::render_segments(pa, &joined.iter().map(|x| &x[..]).collect::<Vec<_>>());
            let (va, vs) = model::segments(vpath);
            let vn: Vec<Vec<u8>> = model::norm_seq(va, &vs).into_iter().map(|x| x.to_vec()).collect();
            if !eq(&joined, &vn) {
                ctx.fail("C16.suffix-join", f(), format!("{}: prefix {} ++ suffix {} = {} is not equal to the value's path {}", kind, show(ppath), show(g), show(&jt), show(vpath)));
            }
        }
    }
}

pub fn c16_path(ctx: &mut Ctx, value: &str, prefix: &str) {
    let (Ok(v), Ok(p)) = (Path::new(value), Path::new(prefix)) else { ctx.stratum("skipped:rejected-by-library"); return; };
    let want = c16_model_suffix(b(value), b(prefix));
    ctx.call("Path::suffix");
    match crate::ctx::guard(|| v.suffix(p).map(|x| x.as_bytes().to_vec())) {
        Err(m) => ctx.fail("C16.panic", c16_feats("Path", b(value), b(prefix), want.is_some()), format!("Path::suffix({}, {}) panicked: {}", show(b(value)), show(b(prefix)), m)),
        Ok(got) => c16_check_suffix_path(ctx, "Path", b(value), b(prefix), b(value), b(prefix), &want, got.as_deref()),
    }
    ctx.nontrivial_cur();
}

pub fn c16_ref(ctx: &mut Ctx, value: &str, prefix: &str) {
    let (Ok(v), Ok(p)) = (RiRef::new(value), RiRef::new(prefix)) else { ctx.stratum("skipped:rejected-by-library"); return; };
    let vs = model::split(b(value));
    let ps = model::split(b(prefix));
    let head_ok = vs.scheme == ps.scheme && match (vs.authority, ps.authority) { (None, None) => true, (Some(x), Some(y)) => model::eq_authority(x, y), _ => false };
    let want = if head_ok { c16_model_suffix(vs.path, ps.path) } else { None };
    if !head_ok { ctx.stratum("suffix:head-differs"); }
    ctx.call("RiRef::suffix");
    let r = crate::ctx::guard(|| v.suffix(p).map(|(pb, q, f)| (pb.as_bytes().to_vec(), q.map(|x| (x.as_bytes().as_ptr() as usize, x.as_bytes().len())), f.map(|x| (x.as_bytes().as_ptr() as usize, x.as_bytes().len())))));
    match r {
        Err(m) => ctx.fail("C16.panic", c16_feats("RiRef", b(value), b(prefix), want.is_some()), format!("RiRef::suffix({}, {}) panicked: {}", show(b(value)), show(b(prefix)), m)),
        Ok(got) => {
            c16_check_suffix_path(ctx, "RiRef", b(value), b(prefix), vs.path, ps.path, &want, got.as_ref().map(|g| &g.0[..]));
            if let (Some(_), Some((_, q, f))) = (&want, &got) {
                let loc = |x: Option<&[u8]>| x.map(|s| (s.as_ptr() as usize, s.len()));
                if *q != loc(vs.query) || *f != loc(vs.fragment) {
                    ctx.fail("C16.suffix-qf", c16_feats("RiRef", b(value), b(prefix), true), format!("RiRef::suffix({}, {}): the accompanying query/fragment are not the value's own", show(b(value)), show(b(prefix))));
                }
            }
        }
    }
    if let (Some(vi), Some(pi)) = (v.as_full(), p.as_full()) {
        ctx.call("Ri::suffix");
        match crate::ctx::guard(|| vi.suffix(pi).map(|(pb, _q, _f)| pb.as_bytes().to_vec())) {
            Err(m) => ctx.fail("C16.panic", c16_feats("Ri", b(value), b(prefix), want.is_some()), format!("Ri::suffix panicked: {}", m)),
            Ok(got) => c16_check_suffix_path(ctx, "Ri", b(value), b(prefix), vs.path, ps.path, &want, got.as_deref()),
        }
    }
    ctx.nontrivial_cur();
}

pub fn c16_base(ctx: &mut Ctx, value: &str) {
    let Ok(v) = RiRef::new(value) else { ctx.stratum("skipped:rejected-by-library"); return; };
    let t = b(value);
    let sp = model::split(t);
    let pstart = sp.path.as_ptr() as usize - t.as_ptr() as usize;
    let end = match sp.path.iter().rposition(|c| *c == b'/') { Some(i) => pstart + i + 1, None => pstart };
    let want = &t[..end];
    let f = |kind: &str| vec![("family", FAM.into()), ("kind", kind.to_string()), ("value_path", path_form(sp.path).into()), ("has_scheme", yn(sp.scheme.is_some())), ("has_authority", yn(sp.authority.is_some()))];
    ctx.call("RiRef::base");
    ctx.stratum(if sp.path.contains(&b'/') { "base:path-with-slash" } else { "base:path-without-slash" });
    match crate::ctx::guard(|| { let x = v.base(); (x.as_bytes().to_vec(), inside(t, x.as_bytes())) }) {
        Err(m) => ctx.fail("C16.panic", f("RiRef::base"), format!("base() of {} panicked: {}", show(t), m)),
        Ok((got, ins)) => {
            if got != want { ctx.fail("C16.base", f("RiRef::base"), format!("base() of {} = {} but the text up to the last '/' of the path is {}", show(t), show(&got), show(want))); }
            else {
                if !valid(Prod::RiRef, &got) { ctx.fail("C16.base-valid", f("RiRef::base"), format!("base() of {} = {} is not a valid reference", show(t), show(&got))); }
                let gs = model::split(&got);
                if gs.query.is_some() || gs.fragment.is_some() { ctx.fail("C16.base-valid", f("RiRef::base"), format!("base() of {} = {} has a query or fragment", show(t), show(&got))); }
                if !ins { ctx.fail("C16.base-valid", f("RiRef::base"), format!("base() of {} is not a sub-slice of the input", show(t))); }
            }
        }
    }
    if let Some(vi) = v.as_full() {
        ctx.call("Ri::base");
        match crate::ctx::guard(|| vi.base().as_bytes().to_vec()) {
            Err(m) => ctx.fail("C16.panic", f("Ri::base"), format!("Ri::base() of {} panicked: {}", show(t), m)),
            Ok(got) => {
                if got != want { ctx.fail("C16.base", f("Ri::base"), format!("Ri::base() of {} = {} instead of {}", show(t), show(&got), show(want))); }
                else if !valid(Prod::Ri, &got) { ctx.fail("C16.base-valid", f("Ri::base"), format!("Ri::base() of {} = {} is not a valid URI/IRI", show(t), show(&got))); }
            }
        }
    }
    ctx.nontrivial_cur();
}

// =====================================================================  C13 (family lock-step)

/// Observations of one family on ASCII inputs; the two families must produce identical vectors.
pub fn lockstep(a: &str, bb: &str, ops_text: &str) -> Vec<String> {
    let mut out: Vec<String> = Vec::new();
    let lossy = |x: &[u8]| String::from_utf8_lossy(x).to_string();
    let (Ok(x), Ok(y)) = (RiRef::new(a), RiRef::new(bb)) else { out.push("rejected".into()); return out; };
    let r = crate::ctx::guard(|| {
        let mut o: Vec<String> = Vec::new();
        let p = x.parts();
        o.push(format!("parts {:?} {:?} {:?} {:?} {:?}", p.scheme.map(|s| lossy(s.as_bytes())), p.authority.map(|s| lossy(s.as_bytes())), lossy(p.path.as_bytes()), p.query.map(|s| lossy(s.as_bytes())), p.fragment.map(|s| lossy(s.as_bytes()))));
        if let Some(au) = x.authority() {
            let ap = au.parts();
            o.push(format!("authority {:?} {:?} {:?}", ap.user_info.map(|s| lossy(s.as_bytes())), lossy(ap.host.as_bytes()), ap.port.map(|s| lossy(s.as_bytes()))));
        }
        o.push(format!("segments {:?}", x.path().segments().map(|s| lossy(s.as_bytes())).collect::<Vec<_>>()));
        o.push(format!("normalized {:?}", lossy(x.path().normalized().as_bytes())));
        o.push(format!("eq {} cmp {:?} hash-eq {}", x == y, x.cmp(y), fnv(x) == fnv(y)));
        o.push(format!("hash {}", fnv(x)));
        o.push(format!("base {:?}", lossy(x.base().as_bytes())));
        o.push(format!("suffix {:?}", x.suffix(y).map(|(p, q, f)| (lossy(p.as_bytes()), q.map(|s| lossy(s.as_bytes())), f.map(|s| lossy(s.as_bytes()))))));
        o.push(format!("relative_to {:?}", lossy(x.relative_to(y).as_bytes())));
        if let Some(yi) = y.as_full() {
            o.push(format!("resolved {:?}", lossy(x.resolved(yi).as_bytes())));
            // the same operations through the full (scheme-ful) wrapper types, borrowed and owned
            if let Some(xi) = x.as_full() {
                let (xio, yio) = (xi.to_owned(), yi.to_owned());
                o.push(format!("full relative_to {:?} {:?} {:?}", lossy(xi.relative_to(yi).as_bytes()), lossy(xio.relative_to(yi).as_bytes()), lossy(yi.relative_to(xi).as_bytes())));
                o.push(format!("full suffix {:?}", xi.suffix(yi).map(|(p, q, f)| (lossy(p.as_bytes()), q.map(|s| lossy(s.as_bytes())), f.map(|s| lossy(s.as_bytes()))))));
                o.push(format!("full base {:?} {:?}", lossy(xi.base().as_bytes()), lossy(xio.base().as_bytes())));
                { let xr: &RiRef = xi.as_ref(); o.push(format!("full as reference resolved {:?} eq {}", lossy(xr.resolved(yi).as_bytes()), *xr == *x)); }
                o.push(format!("full parts {:?} {:?} {:?}", lossy(xi.scheme().as_bytes()), xi.authority().map(|s| lossy(s.as_bytes())), lossy(xi.path().as_bytes())));
                let _ = yio;
            }
        }
        let mut buf = x.to_owned();
        for op in parse_ops(ops_text) {
            if !op.args_valid() { continue; }
            apply_ref_op(&mut buf, &op);
            o.push(format!("after {} {:?}", op.name(), lossy(buf.as_bytes())));
        }
        // the stand-alone component types: owned path edited directly, components compared and hashed
        let mut pb: PathBuf = x.path().to_owned();
        for op in parse_ops(ops_text) {
            if !op.args_valid() || !op.is_path_op() { continue; }
            apply_pathbuf_op(&mut pb, &op);
            o.push(format!("stand-alone path after {} {:?}", op.name(), lossy(pb.as_bytes())));
        }
        let mut pn: PathBuf = x.path().to_owned();
        pn.normalize();
        o.push(format!("stand-alone normalize {:?} parent {:?} file_name {:?} directory {:?}", lossy(pn.as_bytes()), x.path().parent().map(|p| lossy(p.as_bytes())), x.path().file_name().map(|s| lossy(s.as_bytes())), lossy(x.path().directory().as_bytes())));
        o.push(format!("path eq {} cmp {:?} hash {}", x.path() == y.path(), x.path().cmp(y.path()), fnv(x.path())));
        o.push(format!("query eq {} cmp {:?} hash {:?}", x.query() == y.query(), x.query().cmp(&y.query()), x.query().map(|q| fnv(q))));
        o.push(format!("fragment eq {} cmp {:?} hash {:?}", x.fragment() == y.fragment(), x.fragment().cmp(&y.fragment()), x.fragment().map(|q| fnv(q))));
        o.push(format!("authority eq {} cmp {:?} hash {:?}", x.authority() == y.authority(), x.authority().cmp(&y.authority()), x.authority().map(|q| fnv(q))));
        if let (Some(ax), Some(ay)) = (x.authority(), y.authority()) {
            o.push(format!("host eq {} cmp {:?} hash {} userinfo eq {} port {:?}", ax.host() == ay.host(), ax.host().cmp(ay.host()), fnv(ax.host()), ax.user_info() == ay.user_info(), ax.port().map(|p| lossy(p.as_bytes()))));
        }
        for (sx, sy) in x.path().segments().zip(y.path().segments()) {
            o.push(format!("segment eq {} cmp {:?} hash {}", sx == sy, sx.cmp(sy), fnv(sx)));
        }
        o.push(format!("normalized_segments {:?}", x.path().normalized_segments().map(|s| lossy(s.as_bytes())).collect::<Vec<_>>()));
        o.push(format!("normalized_segments from the back {:?}", x.path().normalized_segments().rev().map(|s| lossy(s.as_bytes())).collect::<Vec<_>>()));
        o.push(format!("segments from the back {:?}", x.path().segments().rev().map(|s| lossy(s.as_bytes())).collect::<Vec<_>>()));
        o.push(format!("path-level suffix {:?} {:?}", x.path().suffix(y.path()).map(|p| lossy(p.as_bytes())), y.path().suffix(x.path()).map(|p| lossy(p.as_bytes()))));
        // every provided comparison between the owned/borrowed, full/reference types
        {
            let (xo, yo) = (x.to_owned(), y.to_owned());
            o.push(format!("cmp matrix ref: {:?} {:?} {:?} {:?} {} {} {}", xo.partial_cmp(y), xo.partial_cmp(&y), x.partial_cmp(&yo), xo.cmp(&yo), xo == yo, xo == *y, *x == yo));
            if let (Some(xi), Some(yi)) = (x.as_full(), y.as_full()) {
                let (xio, yio) = (xi.to_owned(), yi.to_owned());
                o.push(format!("cmp matrix full: {:?} {:?} {:?} {:?} {:?} {:?} {:?} {:?} {:?} {:?} {:?} {:?} {:?} {:?} {:?} {:?}",
                    xi.partial_cmp(y), xi.partial_cmp(&y), xi.partial_cmp(&yio), xi.partial_cmp(&yi), xi.partial_cmp(&yo),
                    x.partial_cmp(yi), x.partial_cmp(&yi), x.partial_cmp(&yio),
                    xio.partial_cmp(y), xio.partial_cmp(&y), xio.partial_cmp(&yo), xio.partial_cmp(yi),
                    xo.partial_cmp(yi), xo.partial_cmp(&yi), xo.partial_cmp(&yio), xio.cmp(&yio)));
                o.push(format!("eq matrix full: {} {} {} {} {} {} {} {}", *xi == *y, *xi == yio, *xi == yo, *x == *yi, *x == yio, xio == *y, xio == yo, xo == *yi));
                o.push(format!("hash full {} {} {}", fnv(xi), fnv(&xio), fnv(&xo)));
            }
        }
        o
    });
    match r {
        Ok(o) => out.extend(o),
        Err(m) => out.push(format!("panic {}", m.split('@').next().unwrap_or(""))),
    }
    out
}
