//! C07 - equality is exactly the documented normalising equivalence, and is total.

use crate::abnf::Prod;
use crate::ctx::{Case, Ctx};
use crate::{fam, gen};

pub const RULE: &str = "cases: (value, M-eq-equal respelling) and (value, near-equal perturbation) pairs around grammar-derived references (toggle percent-encoding of unreserved characters, hex case, inserted './' and 'x/../', one octet changed, trailing '/', %2F vs '/', present-but-empty vs absent), component pairs over every %XX pattern incl. octets that are not UTF-8, IP-literal hosts, dot/empty segments, and respelling chains for transitivity; every same-type and provided cross-type == / != impl is run under catch_unwind and compared with the model equivalence. Also: fully percent-encoded hosts against the literal, paths of 13-20 segments whose tails reach back into a long byte-identical prefix, octets an implementation could use as a sentinel (%00 %01 %FF, encoded delimiters) against a real boundary, the full product of authority shapes, and values that ALIAS one buffer (every valid prefix/suffix view of a text against the whole text and against each other). Non-trivial = pairs of textually different values; distinct by the pair";

pub const MANDATORY: &[&str] = &["pair:identical", "pair:equal-respelled", "pair:unequal", "pair:both-full", "octets:utf8", "octets:non-utf8", "comp:Authority", "comp:Path", "comp:UserInfo", "comp:Host", "comp:Segment", "comp:Query", "comp:Fragment", "comp:Scheme", "comp:Port", "triple:all-equal"];

fn run_pair(ctx: &mut Ctx, a: &str, b: &str) {
    let (ia, ua) = fam::valid_in(Prod::RiRef, a);
    let (ib, ub) = fam::valid_in(Prod::RiRef, b);
    if ia && ib {
        fam::irifam::c07_ref_pair(ctx, a, b);
    }
    if ua && ub {
        fam::urifam::c07_ref_pair(ctx, a, b);
    }
    if !(ia && ib) {
        ctx.stratum("skipped:invalid-by-model");
    }
}

const KIND_PROD: [Prod; 9] = [Prod::Authority, Prod::Path, Prod::UserInfo, Prod::Host, Prod::Segment, Prod::Query, Prod::Fragment, Prod::Scheme, Prod::Port];

fn run_comp(ctx: &mut Ctx, a: &str, b: &str, kind: u64) {
    let p = KIND_PROD[kind as usize % 9];
    let (ia, ua) = fam::valid_in(p, a);
    let (ib, ub) = fam::valid_in(p, b);
    if ia && ib {
        fam::irifam::c07_comp_pair(ctx, a, b, kind);
    }
    if ua && ub {
        fam::urifam::c07_comp_pair(ctx, a, b, kind);
    }
    if !(ia && ib) {
        ctx.stratum("skipped:invalid-by-model");
    }
}

pub fn exec(ctx: &mut Ctx, case: &Case) {
    let s = |i: usize| std::str::from_utf8(case.s(i)).unwrap_or("");
    match case.mon.as_str() {
        "pair" => run_pair(ctx, s(0), s(1)),
        "alias" => {
            // values that are views into ONE buffer: every valid prefix (same start address) and
            // suffix (same end address) of the text against the whole text and against each other
            let whole = s(0);
            let bounds: Vec<usize> = whole.char_indices().map(|(i, _)| i).collect();
            let step = (bounds.len() / 24).max(1);
            let mut prev: Option<&str> = None;
            for (j, k) in bounds.iter().enumerate() {
                if j % step != 0 && j + 3 < bounds.len() && j > 2 { continue; }
                let pre = &whole[..*k];
                let suf = &whole[*k..];
                ctx.evals += 4;
                run_pair(ctx, pre, whole);
                run_pair(ctx, whole, pre);
                run_pair(ctx, suf, whole);
                if let Some(p) = prev { run_pair(ctx, p, pre); }
                run_comp(ctx, pre, whole, 1);
                run_comp(ctx, whole, pre, 1);
                run_comp(ctx, pre, whole, 5);
                run_comp(ctx, pre, whole, 3);
                prev = Some(pre);
            }
            ctx.stratum("alias");
        }
        "comp" => run_comp(ctx, s(0), s(1), case.n[0]),
        "triple" => {
            let (a, b, c) = (s(0), s(1), s(2));
            let ok = |x: &str| fam::valid_in(Prod::RiRef, x);
            if ok(a).0 && ok(b).0 && ok(c).0 {
                fam::irifam::c07_triple(ctx, a, b, c);
            }
            if ok(a).1 && ok(b).1 && ok(c).1 {
                fam::urifam::c07_triple(ctx, a, b, c);
            }
        }
        _ => ctx.fail("C07.harness", vec![], format!("unknown sub-monitor {}", case.mon)),
    }
}

pub fn generate(ctx: &mut Ctx) {
    let mut bi = 0u64;
    // structured reference pairs
    let fixed: &[(&str, &str)] = &[
        ("s:", "s:"), ("s:", "S:"), ("s:a", "s:a?"), ("s:a", "s:a#"), ("s:a?", "s:a#"), ("s://", "s:"), ("s://", "s:///"), ("s://h", "s://h/"),
        ("s://h:", "s://h"), ("s://@h", "s://h"), ("s://h:80", "s://h:080"), ("s:/a/./b", "s:/a/b"), ("s:/a/../b", "s:/b"), ("s:a/..", "s:"),
        ("s:/..", "s:/"), ("s:..", "s:../.."), ("s:/a", "s:a"), ("s:/a/", "s:/a"), ("s:/a//", "s:/a/"), ("s://h//a", "s://h/a"), ("s:%61", "s:a"),
        ("s:%2F", "s:/"), ("s:%2e", "s:."), ("s:a/%2e%2e/b", "s:b"), ("s://%68", "s://h"), ("s://[::a]", "s://[::A]"), ("s://u%3A@h", "s://u:@h"),
        ("s:?%41", "s:?A"), ("s:#%41", "s:#A"), ("s:%FF", "s:%ff"), ("s:%FF", "s:%FE"), ("s:%C0%AF", "s:%2F"), ("s:%C3%A9", "s:\u{e9}"),
        ("s:%c3%a9", "s:%C3%A9"), ("s:%E9", "s:\u{e9}"), ("s:%C3", "s:%C3"), ("s:%80", "s:%80"), ("s://%FF@%FF/%FF?%FF#%FF", "s://%ff@%ff/%ff?%ff#%ff"),
        ("a/b", "a/b"), ("a/b", "./a/b"), ("./a:b", "./a:b"), ("/.//a", "//a"), ("", "."), ("", "./"), ("..", "../"), ("/", ""), ("?", ""), ("#", ""),
    ];
    for (a, b) in fixed {
        if ctx.mine(bi) {
            ctx.run(Case::new("pair").arg(a).arg(b));
            ctx.run(Case::new("pair").arg(b).arg(a));
        }
        bi += 1;
    }
    // component pairs over pct patterns (every kind that accepts them)
    let pats = gen::pct_patterns(true);
    for (i, p) in pats.iter().enumerate() {
        if ctx.mine(bi) {
            for kind in [2u64, 3, 4, 5, 6, 0, 1] {
                ctx.run(Case::new("comp").arg(p).arg(p).num(kind));
                let q = &pats[(i * 7 + 3) % pats.len()];
                ctx.run(Case::new("comp").arg(p).arg(q).num(kind));
                let mut rng = ctx.rng("pct-respell", bi * 16 + kind);
                let r = gen::respell_component(&mut rng, p, kind == 4);
                ctx.run(Case::new("comp").arg(p).arg(&r).num(kind));
                // embedded in a full reference
                let (fa, fb) = match kind {
                    2 => (format!("s://{}@h/", p), format!("s://{}@h/", r)),
                    3 => (format!("s://{}/", p), format!("s://{}/", r)),
                    4 => (format!("s:/a/{}/b", p), format!("s:/a/{}/b", r)),
                    5 => (format!("s:?{}", p), format!("s:?{}", r)),
                    6 => (format!("s:#{}", p), format!("s:#{}", r)),
                    _ => (format!("//{}/", p), format!("//{}/", q)),
                };
                ctx.run(Case::new("pair").arg(&fa).arg(&fb));
            }
        }
        bi += 1;
    }
    for h in ["[::1]", "[v1.a]", "[V1.a:b]", "example.org", "1.2.3.4", "a-b.c", ""] {
        if ctx.mine(bi) {
            for lower in [false, true] {
                let e = gen::encode_all(h, lower);
                ctx.run(Case::new("comp").arg(h).arg(&e).num(3));
                ctx.run(Case::new("comp").arg(&e).arg(h).num(3));
                ctx.run(Case::new("pair").arg(format!("s://u@{}:1/p", h)).arg(format!("s://u@{}:1/p", e)));
                ctx.run(Case::new("pair").arg(format!("s://{}/p", e)).arg(format!("s://{}/p", h)));
                ctx.run(Case::new("comp").arg(format!("u@{}", h)).arg(format!("%75@{}", e)).num(0));
            }
        }
        bi += 1;
    }
    for (a, b) in [("s://h/p?a#z", "s://h/p?b#y"), ("s:p?d", "s:p#w"), ("s://h/p?a#z", "s://h/p?a#y"), ("s:/p?b#a", "s:/p?a#b"), ("//h?b#a", "//h?a#b")] {
        if ctx.mine(bi) {
            ctx.run(Case::new("pair").arg(a).arg(b));
            ctx.run(Case::new("pair").arg(b).arg(a));
        }
        bi += 1;
    }
    for n in 13usize..=20 {
        if ctx.mine(bi) {
            let segs: Vec<String> = (0..n).map(|i| format!("s{}", i)).collect();
            let p = segs.join("/");
            let mut q = segs.clone();
            q[n - 1] = "other".into();
            let mut r = segs.clone();
            r[n - 1] = format!("%73{}", n - 1); // same octets, other spelling
            let mut d = segs.clone();
            d.insert(n / 2, ".".into());
            d.insert(n / 2, "x".into());
            d.insert(n / 2 + 1, "..".into());
            // tails that reach back into a byte-identical prefix
            let last = &segs[n - 1];
            let prev = &segs[n - 2];
            let back1 = format!("{}/../{}/x", p, last);
            let back2 = format!("{}/../../{}/{}/x", p, prev, last);
            let back_wrong = format!("{}/../{}/x", p, prev);
            let plain = format!("{}/x", p);
            for abs in ["", "/"] {
                for (x, y) in [(plain.clone(), back1.clone()), (plain.clone(), back2.clone()), (plain.clone(), back_wrong.clone()), (back1.clone(), back2.clone()), (format!("{}/", p), format!("{}/x/..", p)), (p.clone(), format!("{}/x/../.", p))] {
                    ctx.run(Case::new("comp").arg(format!("{}{}", abs, x)).arg(format!("{}{}", abs, y)).num(1));
                    ctx.run(Case::new("pair").arg(format!("s://h/{}?q", x)).arg(format!("s://h/{}?q", y)));
                    ctx.run(Case::new("pair").arg(format!("s:{}{}", abs, x)).arg(format!("s:{}{}", abs, y)));
                }
            }
            for abs in ["", "/"] {
                for (x, y) in [(p.clone(), q.join("/")), (p.clone(), r.join("/")), (p.clone(), d.join("/")), (q.join("/"), r.join("/")), (format!("{}/", p), p.clone())] {
                    ctx.run(Case::new("comp").arg(format!("{}{}", abs, x)).arg(format!("{}{}", abs, y)).num(1));
                    ctx.run(Case::new("pair").arg(format!("s://h/{}?q", x)).arg(format!("s://h/{}?q", y)));
                }
            }
        }
        bi += 1;
    }
    // octets an implementation might use as an internal separator or sentinel, against a real segment boundary
    for x in ["%00", "%01", "%FF", "%2F", "%2f", "%2E", "%3F", "%23", "%00%00", "%5C"] {
        if ctx.mine(bi) {
            for (p, q) in [(format!("a{}b", x), "a/b".to_string()), (format!("a{}", x), "a/".to_string()), (format!("{}a", x), "/a".to_string()), (format!("/a{}", x), "/a/".to_string()), (format!("/a{}{}b", x, x), "/a//b".to_string()), (x.to_string(), "/".to_string()), (x.to_string(), String::new()), (format!("a/{}", x), "a/".to_string()), (format!("a/{}/b", x), "a//b".to_string())] {
                for (l, r) in [(&p, &q), (&q, &p)] {
                    ctx.run(Case::new("comp").arg(l.as_str()).arg(r.as_str()).num(1));
                    ctx.run(Case::new("pair").arg(format!("s:{}", l)).arg(format!("s:{}", r)));
                    ctx.run(Case::new("pair").arg(format!("s://h/{}?q", l.trim_start_matches('/'))).arg(format!("s://h/{}?q", r.trim_start_matches('/'))));
                }
            }
            // the same for the other decoded components: the sentinel inside versus the component cut there
            for (l, r) in [(format!("//u{}v@h", x), "//u@h".to_string()), (format!("//h{}i", x), "//h".to_string()), (format!("?a{}b", x), "?a".to_string()), (format!("#a{}b", x), "#a".to_string()), (format!("?{}", x), "?".to_string()), (format!("#{}", x), "#".to_string())] {
                ctx.run(Case::new("pair").arg(l.as_str()).arg(r.as_str()));
                ctx.run(Case::new("pair").arg(r.as_str()).arg(l.as_str()));
            }
        }
        bi += 1;
    }
    for w in ["http://example.org/a/b?q#f", "s://u@h:80/a/../b/./c?x=y#z", "a/b/c", "/a/b/", "//h/p", "s:a:b", "?q#f", "s://h", "x/../y/..", "s://%41/%41?%41#%41", "s://\u{e9}/\u{e9}?\u{e9}#\u{e9}"] {
        if ctx.mine(bi) {
            ctx.run(Case::new("alias").arg(w));
        }
        bi += 1;
    }
    for (a, b) in [("http", "http"), ("http", "HTTP"), ("a", "b"), ("a+", "a-")] {
        if ctx.mine(bi) {
            ctx.run(Case::new("comp").arg(a).arg(b).num(7));
        }
        bi += 1;
    }
    // long single components (beyond any fixed decode buffer) that differ early, in the middle or only at
    // the very end, with and without escapes
    for len in [1usize, 2, 15, 16, 17, 31, 32, 33, 63, 64, 65, 66, 100, 127, 128, 129, 191, 192, 193, 255, 256, 257, 300, 511, 513, 1000, 4097] {
        if ctx.mine(bi) {
            let base: String = (0..len).map(|i| (b'a' + (i % 23) as u8) as char).collect();
            for pos in [0usize, len / 2, len.saturating_sub(2), len - 1] {
                let mut other = base.clone().into_bytes();
                other[pos] = if other[pos] == b'z' { b'y' } else { b'z' };
                let other = String::from_utf8(other).unwrap();
                // spellings: plain, one escape at the start, one at the end, every third character escaped
                let enc = |s: &str, mode: usize| -> String {
                    let mut o = String::new();
                    for (i, c) in s.chars().enumerate() {
                        let e = match mode { 0 => false, 1 => i == 0, 2 => i + 1 == s.len(), _ => i % 3 == 0 };
                        if e { o.push_str(&format!("%{:02X}", c as u32)); } else { o.push(c); }
                    }
                    o
                };
                for (ma, mb) in [(0usize, 0usize), (1, 0), (0, 2), (1, 2), (3, 0), (3, 3), (2, 1)] {
                    let (x, y, xe) = (enc(&base, ma), enc(&other, mb), enc(&base, mb));
                    for kind in [4u64, 5, 6, 2, 3, 1] {
                        ctx.run(Case::new("comp").arg(x.as_str()).arg(y.as_str()).num(kind));
                        ctx.run(Case::new("comp").arg(x.as_str()).arg(xe.as_str()).num(kind));
                    }
                    ctx.run(Case::new("pair").arg(format!("s://h/p/{}?{}#{}", x, x, x)).arg(format!("s://h/p/{}?{}#{}", y, x, x)));
                    ctx.run(Case::new("pair").arg(format!("s://h/p/{}?{}#{}", x, x, x)).arg(format!("s://h/p/{}?{}#{}", xe, y, x)));
                    ctx.run(Case::new("pair").arg(format!("s://h/p/{}?{}#{}", x, x, x)).arg(format!("s://h/p/{}?{}#{}", xe, xe, y)));
                    ctx.run(Case::new("pair").arg(format!("s://h/p/{}?{}#{}", x, x, x)).arg(format!("s://h/p/{}?{}#{}", xe, xe, xe)));
                }
            }
        }
        bi += 1;
    }
    // a real delimiter and its percent-encoded twin trading places across a component boundary
    for (l, r) in [("//a%40b@c", "//a@b%40c"), ("//u%40v@h%40i", "//u@v%40h%40i"), ("a%2Fb/c", "a/b%2Fc"), ("/a%2Fb/c", "/a/b%2Fc"), ("p%3Fq?r", "p?q%3Fr"), ("?q%23f#g", "?q#f%23g"), ("p%23?q#f", "p#%3Fq%23f"),
                   ("//h%3A1:2", "//h:1%3A2"), ("//u%3Ap:q@h", "//u:p%3Aq@h"), ("//u:p@h", "//u%3Ap@h"), ("s://a%40b@c/x", "s://a@b%40c/x"), ("s://a@b/c%2Fd/e", "s://a@b/c/d%2Fe"), ("//%5B::1%5D", "//[::1]"), ("//a%40b@c:1", "//a@b%40c:1")] {
        if ctx.mine(bi) {
            ctx.run(Case::new("pair").arg(l).arg(r));
            ctx.run(Case::new("pair").arg(r).arg(l));
            ctx.run(Case::new("comp").arg(l.trim_start_matches("s:").trim_start_matches("//")).arg(r.trim_start_matches("s:").trim_start_matches("//")).num(0));
            ctx.run(Case::new("comp").arg(r.trim_start_matches("s:").trim_start_matches("//")).arg(l.trim_start_matches("s:").trim_start_matches("//")).num(0));
            ctx.run(Case::new("comp").arg(l).arg(r).num(1));
            ctx.run(Case::new("comp").arg(r).arg(l).num(1));
        }
        bi += 1;
    }
    // the full product of authority shapes, all pairs (stand-alone and inside a reference)
    {
        let uis: [Option<&str>; 6] = [None, Some(""), Some("u"), Some("%75"), Some("u:p"), Some(":")];
        let hosts = ["", "h", "%68", "H", "[::1]", "1.2.3.4"];
        let ports: [Option<&str>; 4] = [None, Some(""), Some("80"), Some("080")];
        let mut auths: Vec<String> = Vec::new();
        for u in uis { for h in hosts { for p in ports {
            let mut a = String::new();
            if let Some(u) = u { a.push_str(u); a.push('@'); }
            a.push_str(h);
            if let Some(p) = p { a.push(':'); a.push_str(p); }
            auths.push(a);
        } } }
        for (i, x) in auths.iter().enumerate() {
            if ctx.mine(bi) {
                for y in auths.iter() {
                    ctx.run(Case::new("comp").arg(x.as_str()).arg(y.as_str()).num(0));
                    if (i + y.len()) % 3 == 0 {
                        ctx.run(Case::new("pair").arg(format!("s://{}/p?q", x)).arg(format!("s://{}/p?q", y)));
                        ctx.run(Case::new("pair").arg(format!("//{}", x)).arg(format!("//{}", y)));
                    }
                }
            }
            bi += 1;
        }
    }
    for (a, b) in [("", ""), ("80", "80"), ("80", "080"), ("", "0"), ("1", "2")] {
        if ctx.mine(bi) {
            ctx.run(Case::new("comp").arg(a).arg(b).num(8));
        }
        bi += 1;
    }
    // random pairs and triples
    let n = ctx.by_tier(160_000u64, 6_000_000u64) / ctx.nshards;
    for i in 0..n {
        let mut rng = ctx.rng("pairs", i);
        let mut o = gen::Opts::new(rng.chance(1, 2));
        o.bad_pct = rng.chance(1, 3);
        o.max_segs = 20;
        let hs = rng.chance(2, 3);
        let ha = rng.chance(1, 2);
        let p = gen::parts_with(&mut rng, o, hs, ha);
        let a = p.render();
        let q = gen::respell_parts(&mut rng, &p);
        let b = q.render();
        let c = gen::respell_parts(&mut rng, &q).render();
        let d = gen::perturb_parts(&mut rng, &p).render();
        ctx.run(Case::new("pair").arg(&a).arg(&b));
        ctx.run(Case::new("pair").arg(&a).arg(&d));
        ctx.run(Case::new("pair").arg(&a).arg(&a));
        if i % 16 == 0 { ctx.run(Case::new("alias").arg(&a)); }
        ctx.run(Case::new("triple").arg(&a).arg(&b).arg(&c));
        // component pairs
        if let (Some(x), Some(y)) = (&p.authority, &q.authority) {
            ctx.run(Case::new("comp").arg(x).arg(y).num(0));
        }
        ctx.run(Case::new("comp").arg(&p.path).arg(&q.path).num(1));
        let other = gen::path(&mut rng, o);
        ctx.run(Case::new("comp").arg(&p.path).arg(&other).num(1));
    }
}
