//! C05 - component setters change exactly the targeted component.

use crate::abnf::Prod;
use crate::ctx::{Case, Ctx};
use crate::{both_families, gen};

pub const RULE: &str = "cases: every (state shape x setter x argument class) stratum - scheme {absent, present} x authority {absent, empty, host, full} x 14 path forms x query/fragment {absent, empty, text} (those the model accepts) x the five setters with removal and arguments that need disambiguation (paths starting '//', first segment with ':', ':a', '1:x', '%41:b', relative path after authority) - then random (reference, setter, argument) triples with tails up to 2 KiB; M-split before/after: target reads back, frame identical, path modulo the documented disambiguations evaluated on the new state; library accessors re-checked on the result. Non-trivial = every executed setter call; distinct by (initial, op)";

pub const MANDATORY: &[&str] = &["op:set_scheme", "op:set_authority", "op:set_path", "op:set_query", "op:set_fragment", "disambiguation-applied"];

const SCHEMES: &[Option<&str>] = &[None, Some("s")];
const AUTHS: &[Option<&str>] = &[None, Some(""), Some("h"), Some("u@h:1")];
const PATHS: &[&str] = &["", "/", "a", "a/b", "/a/b", "//a", "a:b", "./a:b", "/.//a", ".", "..", "/./", "a//b", "a:b/c:d", "\u{e9}/x", "/a/"];
const QS: &[Option<&str>] = &[None, Some(""), Some("q")];
const FS: &[Option<&str>] = &[None, Some(""), Some("f")];
const OPS: &[&str] = &[
    "auth:%68", "auth:u@%68:1", "auth:U@h:1", "query:%71", "frag:%66", "path:%61", "path:/%61/b", "path:a/./b", "scheme:S",
    "scheme-", "scheme:t", "scheme:longer-scheme", "auth-", "auth:", "auth:h2", "auth:u:p@[::1]:8080", "auth:\u{e9}.org", "path:", "path:/", "path:x",
    "path:x/y", "path:/x/y", "path://x", "path://", "path:x:y", "path:x:y/z", "path::x", "path:1:x", "path:%41:b", "path:./x", "path:/./x", "path:../x",
    "path:\u{e9}/\u{e9}", "path:-x:y", "path:a/b:c", "query-", "query:", "query:k=v", "query:?/?", "frag-", "frag:", "frag:frag", "frag:?/",
];

pub fn exec(ctx: &mut Ctx, case: &Case) {
    let s = |i: usize| std::str::from_utf8(case.s(i)).unwrap_or("");
    match case.mon.as_str() {
        "set" => {
            both_families!(ctx, Prod::RiRef, s(0), c05, s(1));
        }
        _ => ctx.fail("C05.harness", vec![], format!("unknown sub-monitor {}", case.mon)),
    }
}

pub fn generate(ctx: &mut Ctx) {
    let mut bi = 0u64;
    for sc in SCHEMES {
        for au in AUTHS {
            for pa in PATHS {
                for q in QS {
                    for f in FS {
                        if ctx.mine(bi) {
                            let p = gen::Parts { scheme: sc.map(String::from), authority: au.map(String::from), path: pa.to_string(), query: q.map(String::from), fragment: f.map(String::from) };
                            let init = p.render();
                            for op in OPS {
                                ctx.run(Case::new("set").arg(&init).arg(op));
                            }
                        }
                        bi += 1;
                    }
                }
            }
        }
    }
    for len in gen::sweep_lengths() {
        if len > 5000 {
            continue;
        }
        if ctx.mine(bi) {
            let b = "a".repeat(len);
            let e = "\u{e9}".repeat(len);
            for init in ["s://u@h:1/p/q?k#f", "p/q?k#f", "//h", "s:", "s://\u{e9}/\u{e9}?\u{e9}#\u{e9}"] {
                for op in [format!("path:/{}", b), format!("path:{}", e), format!("query:{}", b), format!("frag:{}", e), format!("auth:{}", b), format!("auth:u@{}:8", e), format!("scheme:a{}", b), format!("path://{}", b), format!("path:{}:x", b)] {
                    ctx.run(Case::new("set").arg(init).arg(&op));
                }
            }
        }
        bi += 1;
    }
    let n = ctx.by_tier(200_000u64, 8_000_000u64) / ctx.nshards;
    for i in 0..n {
        let mut rng = ctx.rng("set", i);
        let mut o = gen::Opts::new(rng.chance(1, 2));
        o.long = true;
        o.max_segs = 20;
        o.bad_pct = rng.chance(1, 4);
        let init = gen::reference(&mut rng, o);
        let cur = crate::model::split(init.as_bytes());
        let txt = |x: Option<&[u8]>| x.map(|b| String::from_utf8_lossy(b).to_string());
        let op = match rng.below(16) {
            // a different spelling of the CURRENT value (equal under the library's ==): must still be written
            12 => match txt(cur.authority) {
                Some(a) if !a.contains('[') => {
                    let (ui, rest) = match a.find('@') { Some(i) => (Some(a[..i].to_string()), a[i + 1..].to_string()), None => (None, a.clone()) };
                    let (h, pt) = match rest.find(':') { Some(i) => (rest[..i].to_string(), Some(rest[i + 1..].to_string())), None => (rest.clone(), None) };
                    let mut s = String::new();
                    if let Some(u) = ui { s.push_str(&gen::respell_component(&mut rng, &u, false)); s.push('@'); }
                    s.push_str(&gen::respell_component(&mut rng, &h, false));
                    if let Some(p) = pt { s.push(':'); s.push_str(&p); }
                    format!("auth:{}", s)
                }
                _ => "auth:ex%61mple.org".to_string(),
            },
            13 => format!("path:{}", gen::respell_path(&mut rng, &String::from_utf8_lossy(cur.path))),
            14 => match txt(cur.query) { Some(q) => format!("query:{}", gen::respell_component(&mut rng, &q, false)), None => "query:%41".to_string() },
            15 => match txt(cur.fragment) { Some(f) => format!("frag:{}", gen::respell_component(&mut rng, &f, false)), None => "frag:%7e".to_string() },
            0 => "scheme-".to_string(),
            1 => format!("scheme:{}", gen::scheme(&mut rng)),
            2 => "auth-".to_string(),
            3 => format!("auth:{}", gen::authority(&mut rng, o)),
            4 | 5 | 6 => format!("path:{}", gen::path(&mut rng, o)),
            7 => "query-".to_string(),
            8 => format!("query:{}", gen::query(&mut rng, o)),
            9 => "frag-".to_string(),
            10 => format!("frag:{}", gen::fragment(&mut rng, o)),
            _ => rng.pick(OPS).to_string(),
        };
        ctx.run(Case::new("set").arg(&init).arg(&op));
    }
}
