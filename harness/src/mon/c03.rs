//! C03 - authority accessors return user info, host and port per RFC 3986 section 3.2.

use crate::abnf::Prod;
use crate::ctx::{Case, Ctx};
use crate::{both_families, fam, gen};

pub const RULE: &str = "cases: full product user-info {absent, empty, plain, with ':', pct, non-ASCII} x host {empty, reg-name, IPv4, every structured IPv6/IPvFuture shape, non-ASCII, pct} x port {absent, empty, digits}; all strings up to a length bound over {a : / @ [ ] 1} that the model accepts as authorities; random authorities. Each valid authority is read stand-alone, owned and embedded in four reference shapes through user_info/host/port/parts and compared with the section 3.2 split. Non-trivial = every valid authority (distinct by text)";

pub const MANDATORY: &[&str] = &[
    "host:empty", "host:reg-name", "host:ipv4", "host:ipv6", "host:ipvfuture", "host:non-ascii", "host:pct", "ui:absent", "ui:empty",
    "ui:plain", "ui:with-colon", "port:absent", "port:empty", "port:digits",
];

const ALPHA: &[&str] = &["a", ":", "/", "@", "[", "]", "1"];

pub fn exec(ctx: &mut Ctx, case: &Case) {
    match case.mon.as_str() {
        "auth" => {
            let Ok(s) = std::str::from_utf8(case.s(0)) else { return };
            both_families!(ctx, Prod::Authority, s, c03);
        }
        "enum" => {
            fam::enum_strings(ALPHA, case.n[0] as usize, case.n[1], |s| {
                ctx.evals += 1;
                if ctx.want_sample() {
                    ctx.note_sample(Case::new("auth").arg(s));
                }
                both_families!(ctx, Prod::Authority, s, c03);
            });
        }
        _ => ctx.fail("C03.harness", vec![], format!("unknown sub-monitor {}", case.mon)),
    }
}

pub fn generate(ctx: &mut Ctx) {
    let mut bi = 0u64;
    let maxlen = ctx.by_tier(6, 8);
    for len in 0..=maxlen {
        for p in 0..fam::n_prefixes(ALPHA.len(), len) {
            if ctx.mine(bi) {
                ctx.run(Case::new("enum").num(len as u64).num(p));
            }
            bi += 1;
        }
    }
    // full product
    let uis: &[Option<&str>] = &[None, Some(""), Some("u"), Some("u:p"), Some(":"), Some("%41%3A"), Some("\u{e9}:\u{e9}"), Some("a:b:c"), Some("user:8080"), Some("user:1234567"), Some(":99999"), Some("u:"), Some("1:2"), Some("u:80:x"), Some("u%40"), Some("%40"), Some("u:0000000000443")];
    let mut hosts: Vec<String> = vec!["".into(), "h".into(), "example.org".into(), "1.2.3.4".into(), "255.255.255.255".into(), "999.1.1.1".into(), "\u{e9}.org".into(), "%C3%A9".into(), "%FF".into(), "h!$&'()*+,;=".into()];
    for inner in gen::ipv6_shapes() {
        hosts.push(format!("[{}]", inner));
    }
    let ports: &[Option<&str>] = &[None, Some(""), Some("0"), Some("80"), Some("65536"), Some("00")];
    for ui in uis {
        for h in &hosts {
            for pt in ports {
                if ctx.mine(bi) {
                    let mut s = String::new();
                    if let Some(u) = ui {
                        s.push_str(u);
                        s.push('@');
                    }
                    s.push_str(h);
                    if let Some(p) = pt {
                        s.push(':');
                        s.push_str(p);
                    }
                    ctx.run(Case::new("auth").arg(s.as_bytes()));
                }
                bi += 1;
            }
        }
    }
    for len in gen::sweep_lengths() {
        if len > 5000 {
            continue;
        }
        if ctx.mine(bi) {
            for unit in ["a", "\u{e9}"] {
                let b = unit.repeat(len);
                let d = "7".repeat(len);
                for a in [format!("{}@h:1", b), format!("u@{}:1", b), format!("u@h:{}", d), format!("{}:{}@{}:{}", b, b, b, d), format!("{}@[::1]:{}", b, d), b.clone()] {
                    ctx.run(Case::new("auth").arg(a.as_bytes()));
                }
            }
        }
        bi += 1;
    }
    let n = ctx.by_tier(240_000u64, 12_000_000u64) / ctx.nshards;
    for i in 0..n {
        let mut rng = ctx.rng("auth", i);
        let mut o = gen::Opts::new(rng.chance(1, 2));
        o.bad_pct = true;
        let s = gen::authority(&mut rng, o);
        ctx.run(Case::new("auth").arg(s.as_bytes()));
    }
}
