//! C01 - parsing accepts exactly the RFC 3986/3987 language, for each of the
//! 20 validated types and every construction route.

use crate::abnf::{self, Prod};
use crate::ctx::{show, Case, Ctx, Feats};
use crate::gen;
use iref::{iri, uri};
use std::str::FromStr;

pub const RULE: &str = "cases: exhaustive strings over class-representative alphabets (G-enum), every Unicode scalar value / byte / 2-byte sequence in context templates (G-sweep), structured IP-literal shapes (G-ipv6), grammar-derived valid references and 1-3 edit mutants (G-valid/G-mutate), ill-formed UTF-8 splices; each input is run through all 20 types. An input counts as non-trivial+distinct when the model accepts it for at least one type and rejects it for at least one other (fingerprint = hash of the input bytes; the set is capped per shard, see distinct_saturated)";

pub const MANDATORY: &[&str] = &[
    "accept:Iri", "accept:IriRef", "accept:Uri", "accept:UriRef", "accept:iri::Authority", "accept:uri::Authority",
    "accept:iri::Host", "accept:uri::Host", "accept:Scheme", "accept:Port", "accept:iri::Path", "accept:uri::Path",
    "reject:Iri", "reject:IriRef", "reject:Uri", "reject:UriRef", "reject:iri::Authority", "reject:uri::Authority",
    "reject:iri::Host", "reject:uri::Host", "reject:Scheme", "reject:Port", "reject:iri::Path", "reject:uri::Path",
    "reject:iri::Segment", "reject:uri::Segment", "reject:iri::Query", "reject:uri::Query", "reject:iri::Fragment",
    "reject:uri::Fragment", "reject:iri::UserInfo", "reject:uri::UserInfo", "from_vec:ill-formed", "gen:enum", "gen:sweep-char",
    "gen:sweep-byte", "gen:ipv6", "gen:valid", "gen:mutate",
];

fn feats(ty: &str, route: &str, want: bool) -> Feats {
    vec![("type", ty.to_string()), ("route", route.to_string()), ("model", if want { "accept".into() } else { "reject".into() })]
}

fn verdict(ctx: &mut Ctx, ty: &'static str, route: &'static str, input: &[u8], want: bool, got: bool) {
    if want != got {
        ctx.fail_case(
            "C01.language",
            feats(ty, route, want),
            Case::new("one").arg(input),
            format!("{} via {}: model (RFC ABNF) says {}, library says {} for input {}", ty, route, if want { "accept" } else { "reject" }, if got { "accept" } else { "reject" }, show(input)),
        );
    }
}
fn text(ctx: &mut Ctx, ty: &'static str, route: &'static str, input: &[u8], got: &[u8], which: &str) {
    if input != got {
        ctx.fail_case(
            "C01.text",
            feats(ty, route, which == "accepted value"),
            Case::new("one").arg(input),
            format!("{} via {}: {} is {} but the input was {}", ty, route, which, show(got), show(input)),
        );
    }
}

/// IRI-family type over `str`.  `full`: run the owned routes as well.
macro_rules! str_type {
    ($ctx:expr, $input:expr, $full:expr, $name:literal, $T:ty, $TBuf:ty, $prod:expr) => {{
        let b: &[u8] = $input;
        let want = abnf::accepts_bytes($prod, b, true);
        if let Ok(s) = std::str::from_utf8(b) {
            $ctx.stratum(if want { concat!("accept:", $name) } else { concat!("reject:", $name) });
            match <$T>::new(s) {
                Ok(v) => {
                    verdict($ctx, $name, "new", b, want, true);
                    text($ctx, $name, "new", b, v.as_bytes(), "accepted value");
                    text($ctx, $name, "new/as_str", b, v.as_str().as_bytes(), "accepted value");
                }
                Err(e) => {
                    verdict($ctx, $name, "new", b, want, false);
                    text($ctx, $name, "new", b, e.0.as_bytes(), "error payload");
                }
            }
            let got = <$T>::validate(s.chars());
            verdict($ctx, $name, "validate", b, want, got);
            if $full {
                match <&$T>::try_from(s) {
                    Ok(v) => {
                        verdict($ctx, $name, "TryFrom<&str>", b, want, true);
                        text($ctx, $name, "TryFrom<&str>", b, v.as_bytes(), "accepted value");
                    }
                    Err(e) => {
                        verdict($ctx, $name, "TryFrom<&str>", b, want, false);
                        text($ctx, $name, "TryFrom<&str>", b, e.0.as_bytes(), "error payload");
                    }
                }
                match <$TBuf>::new(s.to_string()) {
                    Ok(v) => {
                        verdict($ctx, $name, "Buf::new", b, want, true);
                        text($ctx, $name, "Buf::new", b, v.as_bytes(), "accepted value");
                    }
                    Err(e) => {
                        verdict($ctx, $name, "Buf::new", b, want, false);
                        text($ctx, $name, "Buf::new", b, e.0.as_bytes(), "error payload");
                    }
                }
                match <$TBuf>::try_from(s.to_string()) {
                    Ok(v) => {
                        verdict($ctx, $name, "Buf::TryFrom<String>", b, want, true);
                        text($ctx, $name, "Buf::TryFrom<String>", b, v.as_bytes(), "accepted value");
                    }
                    Err(e) => {
                        verdict($ctx, $name, "Buf::TryFrom<String>", b, want, false);
                        text($ctx, $name, "Buf::TryFrom<String>", b, e.0.as_bytes(), "error payload");
                    }
                }
                match <$TBuf>::from_str(s) {
                    Ok(v) => {
                        verdict($ctx, $name, "FromStr", b, want, true);
                        text($ctx, $name, "FromStr", b, v.as_bytes(), "accepted value");
                    }
                    Err(e) => {
                        verdict($ctx, $name, "FromStr", b, want, false);
                        text($ctx, $name, "FromStr", b, e.0.as_bytes(), "error payload");
                    }
                }
            }
        }
        want
    }};
}

/// URI-family type over `[u8]`.
macro_rules! bytes_type {
    ($ctx:expr, $input:expr, $full:expr, $name:literal, $T:ty, $TBuf:ty, $prod:expr) => {{
        let b: &[u8] = $input;
        let want = abnf::accepts_bytes($prod, b, false);
        $ctx.stratum(if want { concat!("accept:", $name) } else { concat!("reject:", $name) });
        match <$T>::new(b) {
            Ok(v) => {
                verdict($ctx, $name, "new", b, want, true);
                text($ctx, $name, "new", b, v.as_bytes(), "accepted value");
                text($ctx, $name, "new/as_str", b, v.as_str().as_bytes(), "accepted value");
            }
            Err(e) => {
                verdict($ctx, $name, "new", b, want, false);
                text($ctx, $name, "new", b, e.0, "error payload");
            }
        }
        let got = <$T>::validate(b.iter().copied());
        verdict($ctx, $name, "validate", b, want, got);
        if $full {
            match <&$T>::try_from(b) {
                Ok(v) => {
                    verdict($ctx, $name, "TryFrom<&[u8]>", b, want, true);
                    text($ctx, $name, "TryFrom<&[u8]>", b, v.as_bytes(), "accepted value");
                }
                Err(e) => {
                    verdict($ctx, $name, "TryFrom<&[u8]>", b, want, false);
                    text($ctx, $name, "TryFrom<&[u8]>", b, e.0, "error payload");
                }
            }
            match <$TBuf>::new(b.to_vec()) {
                Ok(v) => {
                    verdict($ctx, $name, "Buf::new", b, want, true);
                    text($ctx, $name, "Buf::new", b, v.as_bytes(), "accepted value");
                }
                Err(e) => {
                    verdict($ctx, $name, "Buf::new", b, want, false);
                    text($ctx, $name, "Buf::new", b, &e.0, "error payload");
                }
            }
            match <$TBuf>::try_from(b.to_vec()) {
                Ok(v) => {
                    verdict($ctx, $name, "Buf::TryFrom<Vec<u8>>", b, want, true);
                    text($ctx, $name, "Buf::TryFrom<Vec<u8>>", b, v.as_bytes(), "accepted value");
                }
                Err(e) => {
                    verdict($ctx, $name, "Buf::TryFrom<Vec<u8>>", b, want, false);
                    text($ctx, $name, "Buf::TryFrom<Vec<u8>>", b, &e.0, "error payload");
                }
            }
            if let Ok(s) = std::str::from_utf8(b) {
                match <$T>::new(s) {
                    Ok(v) => {
                        verdict($ctx, $name, "new(&str)", b, want, true);
                        text($ctx, $name, "new(&str)", b, v.as_bytes(), "accepted value");
                    }
                    Err(e) => {
                        verdict($ctx, $name, "new(&str)", b, want, false);
                        text($ctx, $name, "new(&str)", b, e.0.as_bytes(), "error payload");
                    }
                }
                match <&$T>::try_from(s) {
                    Ok(v) => {
                        verdict($ctx, $name, "TryFrom<&str>", b, want, true);
                        text($ctx, $name, "TryFrom<&str>", b, v.as_bytes(), "accepted value");
                    }
                    Err(e) => {
                        verdict($ctx, $name, "TryFrom<&str>", b, want, false);
                        text($ctx, $name, "TryFrom<&str>", b, e.0.as_bytes(), "error payload");
                    }
                }
                match <$TBuf>::try_from(s.to_string()) {
                    Ok(v) => {
                        verdict($ctx, $name, "Buf::TryFrom<String>", b, want, true);
                        text($ctx, $name, "Buf::TryFrom<String>", b, v.as_bytes(), "accepted value");
                    }
                    Err(e) => {
                        verdict($ctx, $name, "Buf::TryFrom<String>", b, want, false);
                        text($ctx, $name, "Buf::TryFrom<String>", b, e.0.as_bytes(), "error payload");
                    }
                }
                match <$TBuf>::from_str(s) {
                    Ok(v) => {
                        verdict($ctx, $name, "FromStr", b, want, true);
                        text($ctx, $name, "FromStr", b, v.as_bytes(), "accepted value");
                    }
                    Err(e) => {
                        verdict($ctx, $name, "FromStr", b, want, false);
                        text($ctx, $name, "FromStr", b, e.0.as_bytes(), "error payload");
                    }
                }
            }
        }
        want
    }};
}

macro_rules! from_vec_type {
    ($ctx:expr, $input:expr, $name:literal, $TBuf:ty, $prod:expr) => {{
        let b: &[u8] = $input;
        let want = abnf::accepts_bytes($prod, b, true);
        if std::str::from_utf8(b).is_err() {
            $ctx.stratum("from_vec:ill-formed");
        }
        match <$TBuf>::from_vec(b.to_vec()) {
            Ok(v) => {
                verdict($ctx, $name, "from_vec", b, want, true);
                text($ctx, $name, "from_vec", b, v.as_bytes(), "accepted value");
            }
            Err(e) => {
                verdict($ctx, $name, "from_vec", b, want, false);
                text($ctx, $name, "from_vec", b, &e.0, "error payload");
            }
        }
    }};
}

/// Run one input through all 20 types.  Returns the number of types the model accepts.
pub fn check_input(ctx: &mut Ctx, input: &[u8], full: bool) {
    let mut acc = 0u32;
    let mut tot = 0u32;
    macro_rules! tally {
        ($e:expr) => {{
            tot += 1;
            if $e {
                acc += 1
            }
        }};
    }
    let utf8 = std::str::from_utf8(input).is_ok();
    if utf8 {
        tally!(str_type!(ctx, input, full, "Iri", iref::Iri, iref::IriBuf, Prod::Ri));
        tally!(str_type!(ctx, input, full, "IriRef", iref::IriRef, iref::IriRefBuf, Prod::RiRef));
        tally!(str_type!(ctx, input, full, "iri::Authority", iri::Authority, iri::AuthorityBuf, Prod::Authority));
        tally!(str_type!(ctx, input, full, "iri::UserInfo", iri::UserInfo, iri::UserInfoBuf, Prod::UserInfo));
        tally!(str_type!(ctx, input, full, "iri::Host", iri::Host, iri::HostBuf, Prod::Host));
        tally!(str_type!(ctx, input, full, "iri::Path", iri::Path, iri::PathBuf, Prod::Path));
        tally!(str_type!(ctx, input, full, "iri::Segment", iri::Segment, iri::SegmentBuf, Prod::Segment));
        tally!(str_type!(ctx, input, full, "iri::Query", iri::Query, iri::QueryBuf, Prod::Query));
        tally!(str_type!(ctx, input, full, "iri::Fragment", iri::Fragment, iri::FragmentBuf, Prod::Fragment));
    }
    tally!(bytes_type!(ctx, input, full, "Uri", iref::Uri, iref::UriBuf, Prod::Ri));
    tally!(bytes_type!(ctx, input, full, "UriRef", iref::UriRef, iref::UriRefBuf, Prod::RiRef));
    tally!(bytes_type!(ctx, input, full, "uri::Authority", uri::Authority, uri::AuthorityBuf, Prod::Authority));
    tally!(bytes_type!(ctx, input, full, "uri::UserInfo", uri::UserInfo, uri::UserInfoBuf, Prod::UserInfo));
    tally!(bytes_type!(ctx, input, full, "uri::Host", uri::Host, uri::HostBuf, Prod::Host));
    tally!(bytes_type!(ctx, input, full, "uri::Path", uri::Path, uri::PathBuf, Prod::Path));
    tally!(bytes_type!(ctx, input, full, "uri::Segment", uri::Segment, uri::SegmentBuf, Prod::Segment));
    tally!(bytes_type!(ctx, input, full, "uri::Query", uri::Query, uri::QueryBuf, Prod::Query));
    tally!(bytes_type!(ctx, input, full, "uri::Fragment", uri::Fragment, uri::FragmentBuf, Prod::Fragment));
    tally!(bytes_type!(ctx, input, full, "Scheme", uri::Scheme, uri::SchemeBuf, Prod::Scheme));
    tally!(bytes_type!(ctx, input, full, "Port", uri::Port, uri::PortBuf, Prod::Port));
    if full && utf8 {
        // conversions are construction routes too: a URI (reference) obtained from an IRI (reference)
        let s = std::str::from_utf8(input).unwrap();
        let wu = abnf::accepts_bytes(Prod::Ri, input, false);
        let wur = abnf::accepts_bytes(Prod::RiRef, input, false);
        let wi = abnf::accepts_bytes(Prod::Ri, input, true);
        if let Ok(r) = iref::IriRefBuf::new(s.to_string()) {
            verdict(ctx, "Uri", "IriRefBuf::try_into_uri", input, wu, r.clone().try_into_uri().is_ok());
            verdict(ctx, "UriRef", "IriRefBuf::try_into_uri_ref", input, wur, r.clone().try_into_uri_ref().is_ok());
            verdict(ctx, "Iri", "IriRefBuf::try_into_iri", input, wi, r.clone().try_into_iri().is_ok());
            verdict(ctx, "Uri", "IriRef::as_uri", input, wu, r.as_uri().is_some());
            verdict(ctx, "UriRef", "IriRef::as_uri_ref", input, wur, r.as_uri_ref().is_some());
            verdict(ctx, "Iri", "IriRef::as_iri", input, wi, r.as_iri().is_some());
        }
        if let Ok(r) = iref::IriBuf::new(s.to_string()) {
            verdict(ctx, "Uri", "IriBuf::try_into_uri", input, wu, r.clone().try_into_uri().is_ok());
            verdict(ctx, "UriRef", "IriBuf::try_into_uri_ref", input, wur, r.clone().try_into_uri_ref().is_ok());
        }
        if let Ok(r) = iref::UriRefBuf::new(input.to_vec()) {
            verdict(ctx, "Uri", "UriRefBuf::try_into_uri", input, wu, r.clone().try_into_uri().is_ok());
            verdict(ctx, "Iri", "UriRefBuf::try_into_iri", input, wu, r.clone().try_into_iri().is_ok());
        }
    }
    if full || !utf8 {
        from_vec_type!(ctx, input, "IriBuf", iref::IriBuf, Prod::Ri);
        from_vec_type!(ctx, input, "IriRefBuf", iref::IriRefBuf, Prod::RiRef);
    }
    ctx.add("type_checks", tot as u64);
    if acc > 0 && acc < tot {
        ctx.nontrivial(crate::rng::hash_bytes(input));
    }
}

// ------------------------------------------------------------------ alphabets

const ALPHA_WIDE: &[&str] = &[
    "a", "G", "v", "1", "2", "5", "9", ":", "/", "?", "#", "[", "]", "@", "%", ".", "-", "+", "!", "\u{e9}", "\u{e000}", " ", "<",
];
const ALPHA_REF: &[&str] = &["a", ":", "/", "?", "#", "@", ".", "\u{e9}"];
const ALPHA_AUTH: &[&str] = &["a", ":", "/", "@", "[", "]", "1"];
const ALPHA_IP: &[&str] = &["[", "]", ":", "1", "f", ".", "v", "g"];
const ALPHA_PCT: &[&str] = &["%", "4", "a", "F", "g", "/", "?"];

fn alphabet(id: u64) -> &'static [&'static str] {
    match id {
        0 => ALPHA_WIDE,
        1 => ALPHA_REF,
        2 => ALPHA_AUTH,
        3 => ALPHA_IP,
        _ => ALPHA_PCT,
    }
}

/// Enumerate every string of exactly `len` symbols over alphabet `id` whose first
/// `min(2,len)` symbols are given by `prefix_index`, wrapped in `pre`/`post`.
fn enum_batch(ctx: &mut Ctx, id: u64, len: usize, prefix_index: u64, pre: &[u8], post: &[u8]) {
    let al = alphabet(id);
    let k = al.len();
    let fixed = len.min(2);
    let mut idx = vec![0usize; len];
    let mut p = prefix_index as usize;
    for i in 0..fixed {
        idx[i] = p % k;
        p /= k;
    }
    let mut buf: Vec<u8> = Vec::new();
    loop {
        buf.clear();
        buf.extend_from_slice(pre);
        for &i in &idx {
            buf.extend_from_slice(al[i].as_bytes());
        }
        buf.extend_from_slice(post);
        ctx.evals += 1;
        if ctx.want_sample() {
            ctx.note_sample(Case::new("one").arg(&buf));
        }
        check_input(ctx, &buf, len <= 3);
        // increment the free positions
        let mut j = fixed;
        while j < len {
            idx[j] += 1;
            if idx[j] < k {
                break;
            }
            idx[j] = 0;
            j += 1;
        }
        if j >= len {
            break;
        }
    }

}

const TEMPLATES: &[(&str, &str)] = &[
    ("", ""), ("a", ""), ("/", ""), ("?", ""), ("#", ""), ("//", ""), ("//", "@h"), ("//h:", ""), ("s:", ""), ("", ":"),
    ("//[v1.", "]"), ("//[", "]"), ("%", "0"), ("%0", ""), ("a:b@", ""), ("s://h/", "/x?y#z"),
];

pub fn exec(ctx: &mut Ctx, case: &Case) {
    match case.mon.as_str() {
        "one" => {
            check_input(ctx, case.s(0), true);
        }
        "enum" => {
            ctx.stratum("gen:enum");
            let pre = case.a.first().cloned().unwrap_or_default();
            let post = case.a.get(1).cloned().unwrap_or_default();
            enum_batch(ctx, case.n[0], case.n[1] as usize, case.n[2], &pre, &post);
        }
        "sweep-char" => {
            // code points n[0]..n[1] (exclusive), stride n[2], all templates
            ctx.stratum("gen:sweep-char");
            let mut buf = String::new();
            let mut cp = case.n[0];
            while cp < case.n[1] {
                if let Some(c) = char::from_u32(cp as u32) {
                    for (pre, post) in TEMPLATES {
                        buf.clear();
                        buf.push_str(pre);
                        buf.push(c);
                        buf.push_str(post);
                        ctx.evals += 1;
                        check_input(ctx, buf.as_bytes(), false);
                    }
                }
                cp += case.n[2];
            }
        }
        "sweep-byte" => {
            // 2-byte sequences with first byte n[0], plus the single byte, in all templates
            ctx.stratum("gen:sweep-byte");
            let b0 = case.n[0] as u8;
            let mut buf: Vec<u8> = Vec::new();
            for (pre, post) in TEMPLATES {
                buf.clear();
                buf.extend_from_slice(pre.as_bytes());
                buf.push(b0);
                buf.extend_from_slice(post.as_bytes());
                ctx.evals += 1;
                check_input(ctx, &buf, true);
            }
            for b1 in 0..=255u8 {
                for (pre, post) in &TEMPLATES[..4] {
                    buf.clear();
                    buf.extend_from_slice(pre.as_bytes());
                    buf.push(b0);
                    buf.push(b1);
                    buf.extend_from_slice(post.as_bytes());
                    ctx.evals += 1;
                    check_input(ctx, &buf, false);
                }
            }
        }
        _ => {
            ctx.fail("C01.harness", vec![], format!("unknown sub-monitor {}", case.mon));
        }
    }
}

const UCS_EDGES: &[u32] = &[
    0x00, 0x20, 0x7F, 0x80, 0x9F, 0xA0, 0xD7FF, 0xE000, 0xF8FF, 0xF900, 0xFDCF, 0xFDD0, 0xFDEF, 0xFDF0, 0xFFEF, 0xFFF0, 0xFFFD, 0xFFFE, 0xFFFF,
    0x10000, 0x1FFFD, 0x1FFFE, 0x20000, 0x2FFFD, 0x30000, 0x3FFFD, 0x40000, 0x4FFFD, 0x50000, 0x5FFFD, 0x60000, 0x6FFFD, 0x70000, 0x7FFFD,
    0x80000, 0x8FFFD, 0x90000, 0x9FFFD, 0xA0000, 0xAFFFD, 0xB0000, 0xBFFFD, 0xC0000, 0xCFFFD, 0xD0000, 0xDFFFD, 0xE0000, 0xE0FFF, 0xE1000,
    0xEFFFD, 0xEFFFE, 0xF0000, 0xFFFFD, 0xFFFFE, 0x100000, 0x10FFFD, 0x10FFFE, 0x10FFFF,
];

pub fn generate(ctx: &mut Ctx) {
    let mut bi: u64 = 0; // global batch index, for shard ownership
    let mut own = |ctx: &mut Ctx| {
        let m = ctx.mine(bi);
        bi += 1;
        m
    };
    // ---- G-enum
    let plans: Vec<(u64, usize, &[u8], &[u8])> = if ctx.quick() {
        vec![(0, 4, b"", b""), (1, 6, b"", b""), (2, 6, b"", b""), (3, 5, b"//", b""), (2, 5, b"//", b""), (4, 5, b"", b""), (4, 4, b"s:", b"")]
    } else {
        vec![(0, 5, b"", b""), (1, 8, b"", b""), (2, 8, b"", b""), (3, 7, b"//", b""), (3, 7, b"", b""), (2, 7, b"//", b""), (2, 6, b"s://", b""), (4, 7, b"", b""), (4, 6, b"s:", b""), (4, 6, b"?", b"")]
    };
    for (id, maxlen, pre, post) in plans {
        let k = alphabet(id).len() as u64;
        for len in 0..=maxlen {
            let nprefix = match len {
                0 => 1,
                1 => k,
                _ => k * k,
            };
            for p in 0..nprefix {
                if own(ctx) {
                    ctx.run(Case::new("enum").arg(pre).arg(post).num(id).num(len as u64).num(p));
                }
            }
        }
    }
    // ---- G-sweep over code points
    if ctx.quick() {
        // every code point below 0x3000, +-3 around every table edge, every 61st elsewhere
        let mut lo = 0u64;
        while lo < 0x3000 {
            if own(ctx) {
                ctx.run(Case::new("sweep-char").num(lo).num(lo + 0x100).num(1));
            }
            lo += 0x100;
        }
        for &e in UCS_EDGES {
            if own(ctx) {
                ctx.run(Case::new("sweep-char").num((e as u64).saturating_sub(3)).num((e as u64 + 4).min(0x110000)).num(1));
            }
        }
        let mut lo = 0x3000u64;
        while lo < 0x110000 {
            if own(ctx) {
                ctx.run(Case::new("sweep-char").num(lo + ctx.seed % 61).num((lo + 0x4000).min(0x110000)).num(61));
            }
            lo += 0x4000;
        }
    } else {
        let mut lo = 0u64;
        while lo < 0x110000 {
            if own(ctx) {
                ctx.run(Case::new("sweep-char").num(lo).num(lo + 0x400).num(1));
            }
            lo += 0x400;
        }
    }
    // ---- G-sweep over bytes
    for b0 in 0..=255u64 {
        if own(ctx) {
            ctx.run(Case::new("sweep-byte").num(b0));
        }
    }
    // ---- ill-formed UTF-8 spliced into valid text
    for (i, ill) in gen::ILL_FORMED.iter().enumerate() {
        for (pre, post) in TEMPLATES {
            if own(ctx) {
                let mut v = pre.as_bytes().to_vec();
                v.extend_from_slice(ill);
                v.extend_from_slice(post.as_bytes());
                ctx.run(Case::new("one").arg(&v));
                let mut w = b"http://ex\xc3\xa9.org/p".to_vec();
                w.extend_from_slice(ill);
                w.extend_from_slice(b"?q#f");
                let _ = i;
                ctx.run(Case::new("one").arg(&w));
            }
        }
    }
    // ---- code points with a reputation, leading / inner / trailing, through every route
    for cp in ["\u{feff}", "\u{3000}", "\u{a0}", "\u{ad}", "\u{200b}", "\u{2028}", "\u{fffd}", "\u{fffe}", "\u{85}", "\u{7f}"] {
        if own(ctx) {
            for (pre, post) in [("", "http://example.org/a"), ("", "a/b"), ("", "a:b/c"), ("", ""), ("s:", ""), ("s://h/", "/x"), ("s://", "@h"), ("?", ""), ("#", "")] {
                ctx.run(Case::new("one").arg(format!("{}{}{}", pre, cp, post)));
            }
        }
    }
    // ---- G-ipv6
    for inner in gen::ipv6_shapes() {
        if own(ctx) {
            ctx.stratum("gen:ipv6");
            for shape in [
                format!("[{}]", inner),
                format!("[{}]:80", inner),
                format!("u@[{}]", inner),
                format!("u:p@[{}]:", inner),
                format!("//[{}]", inner),
                format!("s://[{}]:1/p", inner),
                format!("//u@[{}]:1?q", inner),
                inner.clone(),
                format!("[{}", inner),
                format!("{}]", inner),
            ] {
                ctx.run(Case::new("one").arg(shape.as_bytes()));
            }
        }
    }
    // ---- G-valid + G-mutate (random)
    let n = ctx.by_tier(200_000u64, 3_000_000u64) / ctx.nshards;
    for i in 0..n {
        let mut rng = ctx.rng("valid", i);
        let iri = rng.chance(1, 2);
        let mut o = gen::Opts::new(iri);
        o.bad_pct = true;
        o.long = true;
        o.max_segs = 20;
        let v = match rng.below(8) {
            0 => gen::authority(&mut rng, o),
            1 => gen::path(&mut rng, o),
            2 => gen::host(&mut rng, o),
            3 => gen::full(&mut rng, o),
            _ => gen::reference(&mut rng, o),
        };
        ctx.stratum("gen:valid");
        ctx.run(Case::new("one").arg(v.as_bytes()));
        let other = gen::reference(&mut rng, o);
        for _ in 0..2 {
            let m = gen::mutate(&mut rng, &v, &other);
            ctx.stratum("gen:mutate");
            ctx.run(Case::new("one").arg(&m));
        }
    }
}
