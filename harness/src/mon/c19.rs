//! C19 - percent-decoded views of components are total and faithful.

use crate::abnf::Prod;
use crate::ctx::{Case, Ctx};
use crate::{both_families, fam, gen};

pub const RULE: &str = "cases: component values over every %XX pattern (all 256 single escapes, well-formed 2/3/4-byte characters split over escapes and mixed with literal non-ASCII, lone continuation/lead bytes, truncated sequences, overlong forms, encoded surrogates, octets > F4) and their concatenations x {user info, host, segment, query, fragment} x both families, stand-alone, owned (into_pct_string) and extracted from full references; as_pct_str/Deref, bytes(), chars(), len(), decode(), == str each under catch_unwind, compared with the octet model. The embedded pass compares the accessor's view (and its presence) with the RFC split of the enclosing reference. Panics are attributed to their site (pct-str dependency vs the library's own code). Non-trivial = every valid component value; distinct by (kind, text)";

pub const MANDATORY: &[&str] = &["type:UserInfo", "type:Host", "type:Segment", "type:Query", "type:Fragment", "octets:utf8", "octets:ill-formed", "via:standalone", "via:embedded"];

const KIND_PROD: [Prod; 7] = [Prod::Authority, Prod::Path, Prod::UserInfo, Prod::Host, Prod::Segment, Prod::Query, Prod::Fragment];

pub fn exec(ctx: &mut Ctx, case: &Case) {
    let Ok(s) = std::str::from_utf8(case.s(0)) else { return };
    match case.mon.as_str() {
        "comp" => {
            let kind = case.n[0];
            both_families!(ctx, KIND_PROD[kind as usize], s, c19, kind);
        }
        "ref" => {
            both_families!(ctx, Prod::RiRef, s, c19_embedded);
        }
        _ => ctx.fail("C19.harness", vec![], format!("unknown sub-monitor {}", case.mon)),
    }
}

pub fn generate(ctx: &mut Ctx) {
    let mut bi = 0u64;
    let pats = gen::pct_patterns(true);
    for (i, p) in pats.iter().enumerate() {
        if ctx.tiny() && i % 96 != (ctx.seed % 96) as usize {
            bi += 1;
            continue;
        }
        if ctx.mine(bi) {
            for kind in 2u64..=6 {
                ctx.run(Case::new("comp").arg(p).num(kind));
                // concatenations with another pattern and with literal text
                let q = &pats[(i * 11 + 5) % pats.len()];
                ctx.run(Case::new("comp").arg(format!("{}{}", p, q)).num(kind));
                ctx.run(Case::new("comp").arg(format!("a{}\u{e9}{}", p, q)).num(kind));
            }
            ctx.run(Case::new("ref").arg(format!("s://{}@{}/{}/{}?{}#{}", p, p, p, p, p, p)));
            ctx.run(Case::new("ref").arg(format!("//{}/{}", p, p)));
            ctx.run(Case::new("ref").arg(format!("{}/x?{}", p, p)));
        }
        bi += 1;
    }
    if !ctx.quick() {
        // every pair of single escapes as a segment / query (65536 x 2)
        for hi in 0..256u32 {
            if ctx.mine(bi) {
                for lo in 0..256u32 {
                    ctx.run(Case::new("comp").arg(format!("%{:02X}%{:02x}", hi, lo)).num(4));
                    ctx.run(Case::new("comp").arg(format!("%{:02X}%{:02x}", hi, lo)).num(5));
                }
            }
            bi += 1;
        }
    }
    let n = ctx.random_budget(96, 120_000, 6_000_000);
    for i in 0..n {
        let mut rng = ctx.rng("c19", i);
        let mut o = gen::Opts::new(rng.chance(1, 2));
        o.bad_pct = true;
        let r = gen::reference(&mut rng, o);
        ctx.run(Case::new("ref").arg(&r));
        let kind = rng.range(2, 6) as u64;
        let s = match kind {
            2 => gen::userinfo(&mut rng, o),
            3 => gen::host_of(&mut rng, o, gen::HostKind::Pct),
            4 => gen::segment(&mut rng, o, false, false),
            5 => gen::query(&mut rng, o),
            _ => gen::fragment(&mut rng, o),
        };
        ctx.run(Case::new("comp").arg(&s).num(kind));
    }
    let _ = fam::n_prefixes;
}
