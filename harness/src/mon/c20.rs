//! C20 - borrowed parsing and component access are zero-copy and allocation-free.

use crate::abnf::Prod;
use crate::ctx::{Case, Ctx};
use crate::{both_families, fam, gen};

pub const RULE: &str = "cases: grammar-derived valid references incl. multi-byte text, > 16 segments, > 512-byte paths and 64 KiB inputs, plus valid/invalid strings for every borrowed constructor; a counting global allocator brackets each single call (parse, scheme/authority/path/query/fragment/parts, authority user_info/host/port/parts, segments, first/last/file_name/directory/parent/parent_or_empty/base) and pointer ranges of everything returned are compared with the input's. Non-trivial = valid reference on which all accessors ran; distinct by text";

pub const MANDATORY: &[&str] = &["segs:0", "segs:1-16", "segs:17+", "len:small", "len:513+", "len:64k+", "multibyte", "constant-returned", "new-ok:Ri", "new-err:Ri", "new-ok:Host", "new-err:Host", "new-ok:Path", "new-err:Path"];

pub fn exec(ctx: &mut Ctx, case: &Case) {
    match case.mon.as_str() {
        "ref" => {
            let Ok(s) = std::str::from_utf8(case.s(0)) else { return };
            both_families!(ctx, Prod::RiRef, s, c20_ref);
            fam::irifam::c20_new(ctx, s);
            if s.is_ascii() {
                fam::urifam::c20_new(ctx, s);
            }
        }
        "new" => {
            let Ok(s) = std::str::from_utf8(case.s(0)) else { return };
            fam::irifam::c20_new(ctx, s);
            fam::urifam::c20_new(ctx, s);
        }
        _ => ctx.fail("C20.harness", vec![], format!("unknown sub-monitor {}", case.mon)),
    }
}

pub fn generate(ctx: &mut Ctx) {
    let mut bi = 0u64;
    for s in ["", "/", "//", "a", "/a", "//a", "s:", "s://h", "//x", "s:/.//a", "s://u@h:1/a/b/?q#f", "a/b/c/", "//h//a//", "../..", "s:a", "s:/a", "1.2.3.4", "[::1]", "80", "u:p", "h", "a:b", "%", "\u{e9}", " "] {
        if ctx.mine(bi) {
            ctx.run(Case::new("ref").arg(s));
        }
        bi += 1;
    }
    if !ctx.tiny() {
        for len in gen::sweep_lengths() {
            if ctx.mine(bi) {
                for iri in [false, true] {
                    for s in gen::length_sweep_refs(len, iri) {
                        ctx.run(Case::new("ref").arg(s.as_bytes()));
                    }
                }
            }
            bi += 1;
        }
    }
    let n = ctx.random_budget(240, 240_000, 8_000_000);
    for i in 0..n {
        let mut rng = ctx.rng("ref", i);
        let mut o = gen::Opts::new(rng.chance(1, 2));
        o.long = !ctx.tiny() || rng.chance(1, 8);
        o.max_segs = 40;
        o.bad_pct = true;
        let mut s = gen::reference(&mut rng, o);
        if !ctx.tiny() && rng.chance(1, 400) {
            // 64 KiB input: a very long path
            let seg = gen::segment(&mut rng, o, true, true);
            let mut p = gen::parts_with(&mut rng, o, true, true);
            while p.path.len() < 66_000 {
                p.path.push('/');
                p.path.push_str(&seg);
                p.path.push_str("/abcdefghijklmnopqrstuvwxyz0123456789");
            }
            s = p.render();
        }
        ctx.run(Case::new("ref").arg(s.as_bytes()));
        if rng.chance(1, 3) {
            let other = gen::reference(&mut rng, o);
            let m = gen::mutate(&mut rng, &s, &other);
            if m.len() < 4096 {
                ctx.run(Case::new("new").arg(&m));
            }
        }
    }
}
