//! C11 - authority editing changes one sub-component and keeps its handle coherent.

use crate::abnf::Prod;
use crate::ctx::{Case, Ctx};
use crate::{both_families, gen};

pub const RULE: &str = "cases: every authority shape (user-info {absent, empty, plain, with ':'} x host {empty, reg-name, IPv4, IPv6, IPvFuture, non-ASCII, pct} x port {absent, empty, digits}) x following {nothing, /path, ?q, #f, /a/b?q#f} x {with, without scheme} x exhaustive histories (length <= 2 quick, <= 3 thorough) over {set/remove user info, short/long/empty/IP-literal/non-ASCII/pct host, set/remove/empty port}, plus random histories of length 1-12; each history is run through one handle (view checked after every call), through a fresh handle per call, and on RiBuf, and compared with a (userinfo?, host, port?) record model and the enclosing text. Non-trivial = history with at least one edit on a reference that has an authority; distinct by (initial, history)";

pub const MANDATORY: &[&str] = &["host:empty", "host:reg-name", "host:ipv4", "host:ipv6", "host:ipvfuture", "host:non-ascii", "host:pct", "history-len:1", "history-len:2"];

const OPS: &[&str] = &[
    "host:%68", "host:H", "host:ex%61mple.org", "ui:%75", "ui:U",
    "ui:u", "ui:longer-user:pw", "ui:", "ui-", "host:h", "host:longer.example.org", "host:", "host:[::1]", "host:\u{e9}.org", "host:%C3%A9", "port:80",
    "port:", "port:12345", "port-",
];
const UIS: &[Option<&str>] = &[None, Some(""), Some("u"), Some("u:p"), Some("user:1234567"), Some(":99999"), Some("u:80"), Some("u:"), Some("1:2:3")];
const HOSTS: &[&str] = &["", "h", "example.org", "1.2.3.4", "[::1]", "[v1.a:b]", "\u{e9}", "%41"];
const PORTS: &[Option<&str>] = &[None, Some(""), Some("80")];
const TAILS: &[&str] = &["", "/path", "?q", "#f", "/a/b?q#f", "/~u@home:1", "?to=a@b:c#x@y"];
const PRES: &[&str] = &["//", "s://"];

pub fn exec(ctx: &mut Ctx, case: &Case) {
    let s = |i: usize| std::str::from_utf8(case.s(i)).unwrap_or("");
    match case.mon.as_str() {
        "hist" => {
            both_families!(ctx, Prod::RiRef, s(0), c11_history, s(1));
        }
        "exh" => {
            // all histories of length n[0] over OPS on one initial buffer
            let len = case.n[0] as usize;
            let mut idx = vec![0usize; len];
            loop {
                let h: Vec<&str> = idx.iter().map(|&i| OPS[i]).collect();
                let ht = h.join("\n");
                ctx.evals += 1;
                if ctx.want_sample() {
                    ctx.note_sample(Case::new("hist").arg(s(0)).arg(&ht));
                }
                both_families!(ctx, Prod::RiRef, s(0), c11_history, &ht);
                let mut j = 0;
                while j < len {
                    idx[j] += 1;
                    if idx[j] < OPS.len() {
                        break;
                    }
                    idx[j] = 0;
                    j += 1;
                }
                if j >= len {
                    break;
                }
            }
        }
        _ => ctx.fail("C11.harness", vec![], format!("unknown sub-monitor {}", case.mon)),
    }
}

pub fn generate(ctx: &mut Ctx) {
    let mut bi = 0u64;
    let maxlen = if ctx.tiny() { 0 } else { ctx.by_tier(2u64, 3u64) };
    for pre in PRES {
        for ui in UIS {
            for h in HOSTS {
                for pt in PORTS {
                    for tail in TAILS {
                        if ctx.mine(bi) {
                            let mut a = String::new();
                            if let Some(u) = ui {
                                a.push_str(u);
                                a.push('@');
                            }
                            a.push_str(h);
                            if let Some(p) = pt {
                                a.push(':');
                                a.push_str(p);
                            }
                            let init = format!("{}{}{}", pre, a, tail);
                            for len in 1..=maxlen {
                                ctx.run(Case::new("exh").arg(&init).num(len));
                            }
                        }
                        bi += 1;
                    }
                }
            }
        }
    }
    let n = ctx.random_budget(640, 100_000, 1_000_000);
    for i in 0..n {
        let mut rng = ctx.rng("hist", i);
        let iri = rng.chance(1, 2);
        let mut o = gen::Opts::new(iri);
        o.bad_pct = true;
        let hs = rng.chance(1, 2);
        let p = gen::parts_with(&mut rng, o, hs, true);
        let mut ops: Vec<String> = Vec::new();
        for _ in 0..rng.range(1, 12) {
            ops.push(match rng.below(11) {
                8 => {
                    // a different spelling of the host/user info the reference started with (equal after decoding)
                    let a = p.authority.clone().unwrap_or_default();
                    let rest = a.rsplit('@').next().unwrap_or("").to_string();
                    let h = if rest.starts_with('[') { rest[..rest.find(']').map(|i| i + 1).unwrap_or(rest.len())].to_string() } else { rest.split(':').next().unwrap_or("").to_string() };
                    if h.starts_with('[') { format!("host:{}", h) } else { format!("host:{}", gen::respell_component(&mut rng, &h, false)) }
                }
                9 => match p.authority.clone().unwrap_or_default().find('@') { Some(i) => format!("ui:{}", gen::respell_component(&mut rng, &p.authority.clone().unwrap()[..i], false)), None => "ui:%75".to_string() },
                10 => rng.pick(&["host:ex%61mple.org", "host:%68", "host:H", "ui:%75", "ui:U", "host:%C3%A9.org", "host:%c3%a9.org"]).to_string(),
                0 => format!("ui:{}", gen::userinfo(&mut rng, o)),
                1 => "ui-".to_string(),
                2 | 3 => format!("host:{}", gen::host(&mut rng, o)),
                4 => format!("port:{}", gen::port(&mut rng)),
                5 => "port-".to_string(),
                _ => rng.pick(OPS).to_string(),
            });
        }
        ctx.run(Case::new("hist").arg(p.render()).arg(ops.join("\n")));
    }
}
