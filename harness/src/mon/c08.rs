//! C08 - Eq, Ord and Hash agree with each other across all views of a value.

use crate::abnf::Prod;
use crate::ctx::{guard, show, Case, Ctx};
use crate::fam::{self, urifam::Fnv};
use crate::gen;
use std::borrow::Borrow;
use std::collections::{BTreeSet, HashSet};
use std::hash::{Hash, Hasher};

pub const RULE: &str = "cases: the C07 pair workload (equal respellings, near-equal perturbations, %XX patterns incl. non-UTF-8 octets) for every comparable type, plus batches of 8-24 related values that are sorted with the library's cmp (all i<j pairs re-checked) and inserted into HashSet/HashMap/BTreeSet keyed by the owned form and looked up through each Borrow view the library provides between its own types (XBuf->X; Iri/IriBuf->IriRef; Uri/UriBuf->UriRef, Iri, IriRef). hash uses a fixed FNV hasher and DefaultHasher. The FNV hasher separates consecutive write calls (so a Hash impl whose call sequence depends on the spelling is seen, as FxHash/aHash users would). Also long shared prefixes, sentinel octets, the authority shape product, aliasing views, and batches of stand-alone Path values (absolute, relative, empty mixed). Non-trivial = pairs of textually different values / batches; distinct by case";

pub const MANDATORY: &[&str] = &["law:equal-pair", "law:unequal-pair", "pair:both-full", "batch", "batch:has-full", "xfam:uri-as-iri", "comp:Authority", "comp:Path", "comp:UserInfo", "comp:Host", "comp:Segment", "comp:Query", "comp:Fragment", "comp:Scheme", "comp:Port"];

fn fnv<T: Hash + ?Sized>(v: &T) -> u64 {
    let mut h = Fnv::new();
    v.hash(&mut h);
    h.finish()
}

fn xfeats(view: &str, law: &str) -> crate::ctx::Feats {
    vec![("family", "uri".into()), ("type", view.into()), ("law", law.into()), ("octets", "utf8".into())]
}

/// Cross-family views of a URI: Borrow<Iri>, Borrow<IriRef>, Borrow<UriRef> for Uri and UriBuf.
fn xfam_pair(ctx: &mut Ctx, a: &str, b: &str) {
    let (Ok(x), Ok(y)) = (iref::Uri::new(a), iref::Uri::new(b)) else { return };
    ctx.stratum("xfam:uri-as-iri");
    let r = guard(|| {
        let xi: &iref::Iri = x.borrow();
        let yi: &iref::Iri = y.borrow();
        let xir: &iref::IriRef = x.borrow();
        let yir: &iref::IriRef = y.borrow();
        let xur: &iref::UriRef = x.borrow();
        let yur: &iref::UriRef = y.borrow();
        let xo = x.to_owned();
        let xoi: &iref::Iri = xo.borrow();
        let xoir: &iref::IriRef = xo.borrow();
        let xour: &iref::UriRef = xo.borrow();
        (
            [fnv(x), fnv(xi), fnv(xir), fnv(xur), fnv(&xo), fnv(xoi), fnv(xoir), fnv(xour)],
            [x.cmp(y), xi.cmp(yi), xir.cmp(yir), xur.cmp(yur)],
            [x == y, xi == yi, xir == yir, xur == yur],
        )
    });
    match r {
        Err(m) => ctx.fail("C08.panic", xfeats("Uri", "borrow views"), format!("panicked: {}", m)),
        Ok((h, c, e)) => {
            let names = ["Uri", "Uri as Iri", "Uri as IriRef", "Uri as UriRef", "UriBuf", "UriBuf as Iri", "UriBuf as IriRef", "UriBuf as UriRef"];
            for i in 1..h.len() {
                if h[i] != h[0] {
                    ctx.fail("C08.views", xfeats(names[i], "hash(k)==hash(k.borrow())"), format!("hash of {} differs between Uri and its view {}", show(a.as_bytes()), names[i]));
                }
            }
            for i in 1..c.len() {
                if c[i] != c[0] || e[i] != e[0] {
                    ctx.fail("C08.views", xfeats(names[i], "cmp/eq agree across views"), format!("cmp/eq of ({}, {}) differ between Uri and view {}: {:?}/{} vs {:?}/{}", show(a.as_bytes()), show(b.as_bytes()), names[i], c[0], e[0], c[i], e[i]));
                }
            }
        }
    }
    // collection lookups through the cross-family views
    let r = guard(|| {
        let xo = x.to_owned();
        let mut hs: HashSet<iref::UriBuf> = HashSet::new();
        hs.insert(xo.clone());
        let mut bs: BTreeSet<iref::UriBuf> = BTreeSet::new();
        bs.insert(xo.clone());
        let qi: &iref::Iri = x.borrow();
        let qir: &iref::IriRef = x.borrow();
        let qur: &iref::UriRef = x.borrow();
        let mut hb: HashSet<&iref::Uri> = HashSet::new();
        hb.insert(x);
        [hs.contains(x), hs.contains(qi), hs.contains(qir), hs.contains(qur), bs.contains(x), bs.contains(qi), bs.contains(qir), bs.contains(qur)]
    });
    match r {
        Err(m) => ctx.fail("C08.panic", xfeats("UriBuf", "set lookup"), format!("panicked: {}", m)),
        Ok(f) => {
            let names = ["HashSet<UriBuf>.contains(&Uri)", "HashSet<UriBuf>.contains(&Iri)", "HashSet<UriBuf>.contains(&IriRef)", "HashSet<UriBuf>.contains(&UriRef)", "BTreeSet<UriBuf>.contains(&Uri)", "BTreeSet<UriBuf>.contains(&Iri)", "BTreeSet<UriBuf>.contains(&IriRef)", "BTreeSet<UriBuf>.contains(&UriRef)"];
            for i in 0..f.len() {
                if !f[i] {
                    ctx.fail("C08.lookup", xfeats("UriBuf", names[i]), format!("{}: {} was inserted but is not found", names[i], show(a.as_bytes())));
                }
            }
            ctx.add("collection_lookups", 8);
        }
    }
}

fn run_pair(ctx: &mut Ctx, a: &str, b: &str) {
    let (ia, ua) = fam::valid_in(Prod::RiRef, a);
    let (ib, ub) = fam::valid_in(Prod::RiRef, b);
    if ia && ib {
        fam::irifam::c08_ref_pair(ctx, a, b);
    }
    if ua && ub {
        fam::urifam::c08_ref_pair(ctx, a, b);
        xfam_pair(ctx, a, b);
    }
}

const KIND_PROD: [Prod; 9] = [Prod::Authority, Prod::Path, Prod::UserInfo, Prod::Host, Prod::Segment, Prod::Query, Prod::Fragment, Prod::Scheme, Prod::Port];

fn run_comp(ctx: &mut Ctx, a: &str, b: &str, kind: u64) {
    let p = KIND_PROD[kind as usize % 9];
    let (ia, ua) = fam::valid_in(p, a);
    let (ib, ub) = fam::valid_in(p, b);
    if ia && ib {
        fam::irifam::c08_comp_pair(ctx, a, b, kind);
    }
    if ua && ub {
        fam::urifam::c08_comp_pair(ctx, a, b, kind);
    }
}

pub fn exec(ctx: &mut Ctx, case: &Case) {
    let s = |i: usize| std::str::from_utf8(case.s(i)).unwrap_or("");
    match case.mon.as_str() {
        "pair" => run_pair(ctx, s(0), s(1)),
        "alias" => {
            // values that are views into ONE buffer: every valid prefix (same start address) and
            // suffix (same end address) of the text against the whole text and against each other
            let whole = s(0);
            let bounds: Vec<usize> = whole.char_indices().map(|(i, _)| i).collect();
            let step = (bounds.len() / 24).max(1);
            let mut prev: Option<&str> = None;
            for (j, k) in bounds.iter().enumerate() {
                if j % step != 0 && j + 3 < bounds.len() && j > 2 { continue; }
                let pre = &whole[..*k];
                let suf = &whole[*k..];
                ctx.evals += 4;
                run_pair(ctx, pre, whole);
                run_pair(ctx, whole, pre);
                run_pair(ctx, suf, whole);
                if let Some(p) = prev { run_pair(ctx, p, pre); }
                run_comp(ctx, pre, whole, 1);
                run_comp(ctx, whole, pre, 1);
                run_comp(ctx, pre, whole, 5);
                run_comp(ctx, pre, whole, 3);
                prev = Some(pre);
            }
            ctx.stratum("alias");
        }
        "comp" => run_comp(ctx, s(0), s(1), case.n[0]),
        "batch" => {
            let texts: Vec<&str> = (0..case.a.len()).map(|i| s(i)).collect();
            let iri_ok: Vec<&str> = texts.iter().copied().filter(|t| fam::valid_in(Prod::RiRef, t).0).collect();
            let uri_ok: Vec<&str> = texts.iter().copied().filter(|t| fam::valid_in(Prod::RiRef, t).1).collect();
            fam::irifam::c08_batch(ctx, &iri_ok);
            fam::urifam::c08_batch(ctx, &uri_ok);
        }
        _ => ctx.fail("C08.harness", vec![], format!("unknown sub-monitor {}", case.mon)),
    }
}

pub fn generate(ctx: &mut Ctx) {
    let mut bi = 0u64;
    let fixed: &[(&str, &str)] = &[
        ("s:", "s:"), ("s:a", "s:a?"), ("s://h", "s://h/"), ("s:/a/./b", "s:/a/b"), ("s:/a/../b", "s:/b"), ("s:%61", "s:a"), ("s:%FF", "s:%ff"),
        ("s:%C3%A9", "s:\u{e9}"), ("s://u@h:1/p?q#f", "s://u@h:1/p?q#f"), ("a", "s:a"), ("s:a", "t:a"), ("s:/a", "s:a"), ("s:", "s://"),
        ("http://a/b", "http://a/b/"), ("//a", "//a"), ("", ""), ("s:%C0%AF", "s:%2F"), ("s:%80", "s:%80"), ("s://%ff", "s://%FF"),
    ];
    for (a, b) in fixed {
        if ctx.mine(bi) {
            ctx.run(Case::new("pair").arg(a).arg(b));
            ctx.run(Case::new("pair").arg(b).arg(a));
        }
        bi += 1;
    }
    let pats = gen::pct_patterns(true);
    for (i, p) in pats.iter().enumerate() {
        if ctx.mine(bi) {
            for kind in [2u64, 3, 4, 5, 6, 0, 1] {
                let q = &pats[(i * 7 + 3) % pats.len()];
                let mut rng = ctx.rng("pct-respell", bi * 16 + kind);
                let r = gen::respell_component(&mut rng, p, kind == 4);
                ctx.run(Case::new("comp").arg(p).arg(q).num(kind));
                ctx.run(Case::new("comp").arg(p).arg(&r).num(kind));
                let (fa, fb) = match kind {
                    2 => (format!("s://{}@h/", p), format!("s://{}@h/", r)),
                    3 => (format!("s://{}/", p), format!("s://{}/", r)),
                    4 => (format!("s:/a/{}/b", p), format!("s:/a/{}/b", r)),
                    5 => (format!("s:?{}", p), format!("s:?{}", r)),
                    6 => (format!("s:#{}", p), format!("s:#{}", q)),
                    _ => (format!("//{}/", p), format!("//{}/", q)),
                };
                ctx.run(Case::new("pair").arg(&fa).arg(&fb));
            }
        }
        bi += 1;
    }
    for h in ["[::1]", "[v1.a]", "[V1.a:b]", "example.org", "1.2.3.4", "a-b.c", ""] {
        if ctx.mine(bi) {
            for lower in [false, true] {
                let e = gen::encode_all(h, lower);
                ctx.run(Case::new("comp").arg(h).arg(&e).num(3));
                ctx.run(Case::new("comp").arg(&e).arg(h).num(3));
                ctx.run(Case::new("pair").arg(format!("s://u@{}:1/p", h)).arg(format!("s://u@{}:1/p", e)));
                ctx.run(Case::new("pair").arg(format!("s://{}/p", e)).arg(format!("s://{}/p", h)));
                ctx.run(Case::new("comp").arg(format!("u@{}", h)).arg(format!("%75@{}", e)).num(0));
            }
        }
        bi += 1;
    }
    for (a, b) in [("s://h/p?a#z", "s://h/p?b#y"), ("s:p?d", "s:p#w"), ("s://h/p?a#z", "s://h/p?a#y"), ("s:/p?b#a", "s:/p?a#b"), ("//h?b#a", "//h?a#b")] {
        if ctx.mine(bi) {
            ctx.run(Case::new("pair").arg(a).arg(b));
            ctx.run(Case::new("pair").arg(b).arg(a));
        }
        bi += 1;
    }
    for n in 13usize..=20 {
        if ctx.mine(bi) {
            let segs: Vec<String> = (0..n).map(|i| format!("s{}", i)).collect();
            let p = segs.join("/");
            let mut q = segs.clone();
            q[n - 1] = "other".into();
            let mut r = segs.clone();
            r[n - 1] = format!("%73{}", n - 1); // same octets, other spelling
            let mut d = segs.clone();
            d.insert(n / 2, ".".into());
            d.insert(n / 2, "x".into());
            d.insert(n / 2 + 1, "..".into());
            // tails that reach back into a byte-identical prefix
            let last = &segs[n - 1];
            let prev = &segs[n - 2];
            let back1 = format!("{}/../{}/x", p, last);
            let back2 = format!("{}/../../{}/{}/x", p, prev, last);
            let back_wrong = format!("{}/../{}/x", p, prev);
            let plain = format!("{}/x", p);
            for abs in ["", "/"] {
                for (x, y) in [(plain.clone(), back1.clone()), (plain.clone(), back2.clone()), (plain.clone(), back_wrong.clone()), (back1.clone(), back2.clone()), (format!("{}/", p), format!("{}/x/..", p)), (p.clone(), format!("{}/x/../.", p))] {
                    ctx.run(Case::new("comp").arg(format!("{}{}", abs, x)).arg(format!("{}{}", abs, y)).num(1));
                    ctx.run(Case::new("pair").arg(format!("s://h/{}?q", x)).arg(format!("s://h/{}?q", y)));
                    ctx.run(Case::new("pair").arg(format!("s:{}{}", abs, x)).arg(format!("s:{}{}", abs, y)));
                }
            }
            for abs in ["", "/"] {
                for (x, y) in [(p.clone(), q.join("/")), (p.clone(), r.join("/")), (p.clone(), d.join("/")), (q.join("/"), r.join("/")), (format!("{}/", p), p.clone())] {
                    ctx.run(Case::new("comp").arg(format!("{}{}", abs, x)).arg(format!("{}{}", abs, y)).num(1));
                    ctx.run(Case::new("pair").arg(format!("s://h/{}?q", x)).arg(format!("s://h/{}?q", y)));
                }
            }
        }
        bi += 1;
    }
    // octets an implementation might use as an internal separator or sentinel, against a real segment boundary
    for x in ["%00", "%01", "%FF", "%2F", "%2f", "%2E", "%3F", "%23", "%00%00", "%5C"] {
        if ctx.mine(bi) {
            for (p, q) in [(format!("a{}b", x), "a/b".to_string()), (format!("a{}", x), "a/".to_string()), (format!("{}a", x), "/a".to_string()), (format!("/a{}", x), "/a/".to_string()), (format!("/a{}{}b", x, x), "/a//b".to_string()), (x.to_string(), "/".to_string()), (x.to_string(), String::new()), (format!("a/{}", x), "a/".to_string()), (format!("a/{}/b", x), "a//b".to_string())] {
                for (l, r) in [(&p, &q), (&q, &p)] {
                    ctx.run(Case::new("comp").arg(l.as_str()).arg(r.as_str()).num(1));
                    ctx.run(Case::new("pair").arg(format!("s:{}", l)).arg(format!("s:{}", r)));
                    ctx.run(Case::new("pair").arg(format!("s://h/{}?q", l.trim_start_matches('/'))).arg(format!("s://h/{}?q", r.trim_start_matches('/'))));
                }
            }
            // the same for the other decoded components: the sentinel inside versus the component cut there
            for (l, r) in [(format!("//u{}v@h", x), "//u@h".to_string()), (format!("//h{}i", x), "//h".to_string()), (format!("?a{}b", x), "?a".to_string()), (format!("#a{}b", x), "#a".to_string()), (format!("?{}", x), "?".to_string()), (format!("#{}", x), "#".to_string())] {
                ctx.run(Case::new("pair").arg(l.as_str()).arg(r.as_str()));
                ctx.run(Case::new("pair").arg(r.as_str()).arg(l.as_str()));
            }
        }
        bi += 1;
    }
    for w in ["http://example.org/a/b?q#f", "s://u@h:80/a/../b/./c?x=y#z", "a/b/c", "/a/b/", "//h/p", "s:a:b", "?q#f", "s://h", "x/../y/..", "s://%41/%41?%41#%41"] {
        if ctx.mine(bi) {
            ctx.run(Case::new("alias").arg(w));
        }
        bi += 1;
    }
    for (a, b) in [("http", "http"), ("http", "HTTP"), ("a", "b"), ("a+", "a-")] {
        if ctx.mine(bi) {
            ctx.run(Case::new("comp").arg(a).arg(b).num(7));
        }
        bi += 1;
    }
    // long single components (beyond any fixed decode buffer) that differ early, in the middle or only at
    // the very end, with and without escapes
    for len in [1usize, 2, 15, 16, 17, 31, 32, 33, 63, 64, 65, 66, 100, 127, 128, 129, 191, 192, 193, 255, 256, 257, 300, 511, 513, 1000, 4097] {
        if ctx.mine(bi) {
            let base: String = (0..len).map(|i| (b'a' + (i % 23) as u8) as char).collect();
            for pos in [0usize, len / 2, len.saturating_sub(2), len - 1] {
                let mut other = base.clone().into_bytes();
                other[pos] = if other[pos] == b'z' { b'y' } else { b'z' };
                let other = String::from_utf8(other).unwrap();
                // spellings: plain, one escape at the start, one at the end, every third character escaped
                let enc = |s: &str, mode: usize| -> String {
                    let mut o = String::new();
                    for (i, c) in s.chars().enumerate() {
                        let e = match mode { 0 => false, 1 => i == 0, 2 => i + 1 == s.len(), _ => i % 3 == 0 };
                        if e { o.push_str(&format!("%{:02X}", c as u32)); } else { o.push(c); }
                    }
                    o
                };
                for (ma, mb) in [(0usize, 0usize), (1, 0), (0, 2), (1, 2), (3, 0), (3, 3), (2, 1)] {
                    let (x, y, xe) = (enc(&base, ma), enc(&other, mb), enc(&base, mb));
                    for kind in [4u64, 5, 6, 2, 3, 1] {
                        ctx.run(Case::new("comp").arg(x.as_str()).arg(y.as_str()).num(kind));
                        ctx.run(Case::new("comp").arg(x.as_str()).arg(xe.as_str()).num(kind));
                    }
                    ctx.run(Case::new("pair").arg(format!("s://h/p/{}?{}#{}", x, x, x)).arg(format!("s://h/p/{}?{}#{}", y, x, x)));
                    ctx.run(Case::new("pair").arg(format!("s://h/p/{}?{}#{}", x, x, x)).arg(format!("s://h/p/{}?{}#{}", xe, y, x)));
                    ctx.run(Case::new("pair").arg(format!("s://h/p/{}?{}#{}", x, x, x)).arg(format!("s://h/p/{}?{}#{}", xe, xe, y)));
                    ctx.run(Case::new("pair").arg(format!("s://h/p/{}?{}#{}", x, x, x)).arg(format!("s://h/p/{}?{}#{}", xe, xe, xe)));
                }
            }
        }
        bi += 1;
    }
    // a real delimiter and its percent-encoded twin trading places across a component boundary
    for (l, r) in [("//a%40b@c", "//a@b%40c"), ("//u%40v@h%40i", "//u@v%40h%40i"), ("a%2Fb/c", "a/b%2Fc"), ("/a%2Fb/c", "/a/b%2Fc"), ("p%3Fq?r", "p?q%3Fr"), ("?q%23f#g", "?q#f%23g"), ("p%23?q#f", "p#%3Fq%23f"),
                   ("//h%3A1:2", "//h:1%3A2"), ("//u%3Ap:q@h", "//u:p%3Aq@h"), ("//u:p@h", "//u%3Ap@h"), ("s://a%40b@c/x", "s://a@b%40c/x"), ("s://a@b/c%2Fd/e", "s://a@b/c/d%2Fe"), ("//%5B::1%5D", "//[::1]"), ("//a%40b@c:1", "//a@b%40c:1")] {
        if ctx.mine(bi) {
            ctx.run(Case::new("pair").arg(l).arg(r));
            ctx.run(Case::new("pair").arg(r).arg(l));
            ctx.run(Case::new("comp").arg(l.trim_start_matches("s:").trim_start_matches("//")).arg(r.trim_start_matches("s:").trim_start_matches("//")).num(0));
            ctx.run(Case::new("comp").arg(r.trim_start_matches("s:").trim_start_matches("//")).arg(l.trim_start_matches("s:").trim_start_matches("//")).num(0));
            ctx.run(Case::new("comp").arg(l).arg(r).num(1));
            ctx.run(Case::new("comp").arg(r).arg(l).num(1));
        }
        bi += 1;
    }
    // the full product of authority shapes, all pairs (stand-alone and inside a reference)
    {
        let uis: [Option<&str>; 6] = [None, Some(""), Some("u"), Some("%75"), Some("u:p"), Some(":")];
        let hosts = ["", "h", "%68", "H", "[::1]", "1.2.3.4"];
        let ports: [Option<&str>; 4] = [None, Some(""), Some("80"), Some("080")];
        let mut auths: Vec<String> = Vec::new();
        for u in uis { for h in hosts { for p in ports {
            let mut a = String::new();
            if let Some(u) = u { a.push_str(u); a.push('@'); }
            a.push_str(h);
            if let Some(p) = p { a.push(':'); a.push_str(p); }
            auths.push(a);
        } } }
        for (i, x) in auths.iter().enumerate() {
            if ctx.mine(bi) {
                for y in auths.iter() {
                    ctx.run(Case::new("comp").arg(x.as_str()).arg(y.as_str()).num(0));
                    if (i + y.len()) % 3 == 0 {
                        ctx.run(Case::new("pair").arg(format!("s://{}/p?q", x)).arg(format!("s://{}/p?q", y)));
                        ctx.run(Case::new("pair").arg(format!("//{}", x)).arg(format!("//{}", y)));
                    }
                }
            }
            bi += 1;
        }
    }
    for (a, b) in [("", ""), ("80", "80"), ("80", "080"), ("", "0"), ("1", "2")] {
        if ctx.mine(bi) {
            ctx.run(Case::new("comp").arg(a).arg(b).num(8));
        }
        bi += 1;
    }
    let n = ctx.by_tier(100_000u64, 4_000_000u64) / ctx.nshards;
    for i in 0..n {
        let mut rng = ctx.rng("pairs", i);
        let mut o = gen::Opts::new(rng.chance(1, 2));
        o.bad_pct = rng.chance(1, 3);
        o.max_segs = 20;
        let hs = rng.chance(3, 4);
        let ha = rng.chance(1, 2);
        let p = gen::parts_with(&mut rng, o, hs, ha);
        let a = p.render();
        let q = gen::respell_parts(&mut rng, &p);
        let b = q.render();
        let d = gen::perturb_parts(&mut rng, &p).render();
        ctx.run(Case::new("pair").arg(&a).arg(&b));
        ctx.run(Case::new("pair").arg(&a).arg(&d));
        if i % 16 == 0 { ctx.run(Case::new("alias").arg(&a)); }
        if let (Some(x), Some(y)) = (&p.authority, &q.authority) {
            ctx.run(Case::new("comp").arg(x).arg(y).num(0));
        }
        ctx.run(Case::new("comp").arg(&p.path).arg(&q.path).num(1));
        let other = gen::path(&mut rng, o);
        ctx.run(Case::new("comp").arg(&p.path).arg(&other).num(1));
        if i % 8 == 0 {
            // a batch of related values: respellings, perturbations, fresh ones
            let mut c = Case::new("batch").arg(&a).arg(&b).arg(&d);
            let mut cur = p.clone();
            for _ in 0..rng.range(5, 20) {
                match rng.below(4) {
                    0 => cur = gen::respell_parts(&mut rng, &cur),
                    1 => cur = gen::perturb_parts(&mut rng, &cur),
                    2 => cur = gen::perturb_parts(&mut rng, &p),
                    _ => {
                        let hs = rng.chance(3, 4);
                        let ha = rng.chance(1, 2);
                        cur = gen::parts_with(&mut rng, o, hs, ha)
                    }
                }
                c = c.arg(cur.render());
            }
            ctx.run(c);
        }
    }
}
