//! C09 - dot-segment normalisation follows RFC 3986 section 5.2.4 and Errata 4547.

use crate::abnf::Prod;
use crate::ctx::{Case, Ctx};
use crate::{both_families, gen};

pub const RULE: &str = "cases: all paths over the segment alphabet {'', ., .., a, a:b, e-acute, %2e, %2E%2e} up to a segment bound x {absolute, relative} (exhaustive), random paths up to 40 segments / 2 KiB (beyond the 16-segment and 512-byte inline buffers); for each: normalized_segments() (items, len), normalized() (+ idempotence), PathBuf::normalize() (+ idempotence) and path_mut().normalize() inside every compatible enclosing reference shape (with/without scheme, authority, query/fragment; RiRefBuf and RiBuf), compared with the left-to-right stack model and its 5.2.4 rendering modulo the permitted '.' shield. The normalised iterator is additionally driven from both ends (with its exact-size count) and through adaptor programs (nth, nth_back, folds, finds ...). Non-trivial = path containing at least one dot segment; distinct by path text";

pub const MANDATORY: &[&str] = &["path:absolute", "path:relative", "nsegs:0-6", "nsegs:7-16", "nsegs:17+", "len:513+", "has:dotdot", "has:empty", "norm-first:needs-shield", "embedded:----", "embedded:S---", "embedded:-A--", "embedded:SA--"];

const SEGS: &[&str] = &["", ".", "..", "a", "a:b", "\u{e9}", "%2e", "%2E%2e"];

pub fn exec(ctx: &mut Ctx, case: &Case) {
    let s = |i: usize| std::str::from_utf8(case.s(i)).unwrap_or("");
    match case.mon.as_str() {
        "path" => {
            both_families!(ctx, Prod::Path, s(0), c09);
        }
        "enum" => {
            // all paths with n[0] segments whose first segment index is n[1]
            let n = case.n[0] as usize;
            let mut idx = vec![0usize; n];
            if n > 0 {
                idx[0] = case.n[1] as usize;
            }
            loop {
                let body: Vec<&str> = idx.iter().map(|&i| SEGS[i]).collect();
                for abs in [false, true] {
                    let p = format!("{}{}", if abs { "/" } else { "" }, body.join("/"));
                    ctx.evals += 1;
                    if ctx.want_sample() {
                        ctx.note_sample(Case::new("path").arg(&p));
                    }
                    both_families!(ctx, Prod::Path, &p, c09);
                }
                let mut j = 1;
                while j < n {
                    idx[j] += 1;
                    if idx[j] < SEGS.len() {
                        break;
                    }
                    idx[j] = 0;
                    j += 1;
                }
                if j >= n {
                    break;
                }
            }
        }
        _ => ctx.fail("C09.harness", vec![], format!("unknown sub-monitor {}", case.mon)),
    }
}

pub fn generate(ctx: &mut Ctx) {
    let mut bi = 0u64;
    let maxn = ctx.by_tier(5u64, 7u64);
    for n in 0..=maxn {
        let firsts = if n == 0 { 1 } else { SEGS.len() as u64 };
        for f in 0..firsts {
            if ctx.mine(bi) {
                ctx.run(Case::new("enum").num(n).num(f));
            }
            bi += 1;
        }
    }
    for len in gen::sweep_lengths() {
        if len > 5000 {
            continue;
        }
        if ctx.mine(bi) {
            let b = "a".repeat(len);
            for p in [format!("/{}/../{}", b, b), format!("/x/./{}", b), format!("{}/..", "s/".repeat(len)), format!("/{}y", "s/".repeat(len)), format!("/{}/.", b), format!("{}/{}/..", b, b), format!("/{}{}", "../".repeat(len.min(40)), b)] {
                ctx.run(Case::new("path").arg(p.as_bytes()));
            }
        }
        bi += 1;
    }
    let n = ctx.by_tier(100_000u64, 1_500_000u64) / ctx.nshards;
    for i in 0..n {
        let mut rng = ctx.rng("path", i);
        let mut o = gen::Opts::new(rng.chance(1, 2));
        o.long = true;
        o.max_segs = 40;
        let mut p = gen::path(&mut rng, o);
        if rng.chance(1, 20) {
            // many dot segments and a long tail
            for _ in 0..rng.range(10, 40) {
                p.push('/');
                p.push_str(rng.pick(&["..", ".", "", "x", "abcdefghijklmnopqrstuvwxyzabcdefghijklmnopqrstuvwxyz"]));
            }
        }
        ctx.run(Case::new("path").arg(&p));
    }
}
