//! C02 - component accessors return the RFC 3986 generic-syntax decomposition.

use crate::abnf::Prod;
use crate::ctx::{Case, Ctx};
use crate::{both_families, fam, gen};

pub const RULE: &str = "cases: all strings up to a length bound over the alphabet {a : / ? # @ . e-acute} that the RFC model accepts as references (exhaustive), plus grammar-derived random references with delimiters inside later components, empty-but-present components, all path forms and multi-byte text; each is decomposed through scheme/authority/path/query/fragment/parts of RiRef, RiRefBuf, Ri, RiBuf in both families and compared with the Appendix-B split. Components are also generated at every length 0-70 and around 127/255/511/1023/4095/65535; schemes include words near well-known schemes (https+x, httpsx, htt ...). Non-trivial = a valid reference with at least one of scheme/authority/query/fragment present; distinct by input text";

pub const MANDATORY: &[&str] = &[
    "shape:----", "shape:S---", "shape:-A--", "shape:SA--", "shape:SAQF", "shape:--Q-", "shape:---F", "path:empty", "path:absolute",
    "path:rootless", "path:slashslash", "empty-but-present:authority", "empty-but-present:query", "empty-but-present:fragment", "multibyte",
];

const ALPHA: &[&str] = &["a", ":", "/", "?", "#", "@", ".", "\u{e9}"];

pub fn exec(ctx: &mut Ctx, case: &Case) {
    match case.mon.as_str() {
        "ref" => {
            let Ok(s) = std::str::from_utf8(case.s(0)) else { return };
            both_families!(ctx, Prod::RiRef, s, c02);
        }
        "enum" => {
            fam::enum_strings(ALPHA, case.n[0] as usize, case.n[1], |s| {
                ctx.evals += 1;
                if ctx.want_sample() {
                    ctx.note_sample(Case::new("ref").arg(s));
                }
                both_families!(ctx, Prod::RiRef, s, c02);
            });
        }
        _ => ctx.fail("C02.harness", vec![], format!("unknown sub-monitor {}", case.mon)),
    }
}

pub fn generate(ctx: &mut Ctx) {
    let mut bi = 0u64;
    let maxlen = ctx.by_tier(6, 8);
    for len in 0..=maxlen {
        for p in 0..fam::n_prefixes(ALPHA.len(), len) {
            if ctx.mine(bi) {
                ctx.run(Case::new("enum").num(len as u64).num(p));
            }
            bi += 1;
        }
    }
    // fixed corner cases
    for s in ["", "/", "//", "///", "////", "s:", "s://", "s:////", "s:/", "?", "#", "?#", "s:?#", "//?#", "//@:", "s://@:/?#", "a/b:c", "./a:b", "/.//a", "s:/.//a", "//h//", "s:a:b", "s::", "//[::1]:80/p", "x://u:p@[v1.a]:/?q?#f#", "a?b?c#d?e#f", "%41:x/", "s://\u{e9}@\u{e9}:1/\u{e9}?\u{e000}#\u{e9}"] {
        if ctx.mine(bi) {
            ctx.run(Case::new("ref").arg(s));
        }
        bi += 1;
    }
    for len in gen::sweep_lengths() {
        if ctx.quick() && len > 5000 {
            continue;
        }
        if ctx.mine(bi) {
            for iri in [false, true] {
                for s in gen::length_sweep_refs(len, iri) {
                    ctx.run(Case::new("ref").arg(s.as_bytes()));
                }
            }
        }
        bi += 1;
    }
    let n = ctx.by_tier(600_000u64, 24_000_000u64) / ctx.nshards;
    for i in 0..n {
        let mut rng = ctx.rng("valid", i);
        let mut o = gen::Opts::new(rng.chance(1, 2));
        o.long = true;
        o.max_segs = 20;
        o.bad_pct = true;
        let s = gen::reference(&mut rng, o);
        ctx.run(Case::new("ref").arg(s.as_bytes()));
    }
}
