//! C13 - URIs embed into IRIs and conversions between the four kinds are exact.

use crate::abnf::{self, Prod};
use crate::ctx::{guard, show, Case, Ctx, Feats};
use crate::{fam, gen};
use iref::{Iri, IriBuf, IriRef, IriRefBuf, Uri, UriBuf, UriRef, UriRefBuf};

pub const RULE: &str = "cases: valid references of both families (grammar-derived, ~1/2 ASCII, ~1/2 with a scheme) and their mutants: every as_*/into_*/try_into_*/TryFrom/From/AsRef conversion between the eight types is executed and its outcome compared with the RFC model (up-casts always succeed with identical text; IRI->URI iff the URI grammar accepts the text; reference->full iff a scheme is present; failures hand the original back); plus family lock-step: on ASCII inputs the URI and the IRI family must report identical components, authority parts, segments, normalisation, ==, cmp, hash, base, suffix, relative_to, resolution and results of a random edit history. The lock-step also covers the stand-alone component types (owned path edited directly, component ==/cmp/hash), the whole cross-type ==/partial_cmp/hash matrix, iteration from the back and path-level suffix. Non-trivial = every valid value on which the conversions ran; distinct by case";

pub const MANDATORY: &[&str] = &["conv:uri-valid", "conv:iri-only", "conv:has-scheme", "conv:no-scheme", "lockstep"];

fn feats(conv: &str, want: bool) -> Feats {
    vec![("conversion", conv.to_string()), ("expected", if want { "ok".into() } else { "fail".into() })]
}

macro_rules! conv_opt {
    ($ctx:expr, $name:expr, $text:expr, $want:expr, $e:expr) => {{
        $ctx.call($name);
        match guard(|| $e.map(|v| v.as_bytes().to_vec())) {
            Err(m) => $ctx.fail("C13.panic", feats($name, $want), format!("{} on {} panicked: {}", $name, show($text), m)),
            Ok(got) => {
                if got.is_some() != $want {
                    $ctx.fail("C13.exact", feats($name, $want), format!("{} on {}: {} but the model says it should {}", $name, show($text), if got.is_some() { "succeeded" } else { "failed" }, if $want { "succeed" } else { "fail" }));
                } else if let Some(g) = got {
                    if g != $text {
                        $ctx.fail("C13.text", feats($name, $want), format!("{} on {} changed the text to {}", $name, show($text), show(&g)));
                    }
                }
            }
        }
    }};
}

/// Result<T, E(payload)> conversions: Ok keeps the text, Err hands the original back.
macro_rules! conv_res {
    ($ctx:expr, $name:expr, $text:expr, $want:expr, $e:expr) => {{
        $ctx.call($name);
        match guard(|| match $e { Ok(v) => (true, v.as_bytes().to_vec()), Err(e) => (false, e.0.as_bytes().to_vec()) }) {
            Err(m) => $ctx.fail("C13.panic", feats($name, $want), format!("{} on {} panicked: {}", $name, show($text), m)),
            Ok((ok, g)) => {
                if ok != $want {
                    $ctx.fail("C13.exact", feats($name, $want), format!("{} on {}: {} but the model says it should {}", $name, show($text), if ok { "succeeded" } else { "failed" }, if $want { "succeed" } else { "fail" }));
                }
                if g != $text {
                    $ctx.fail("C13.text", feats($name, $want), format!("{} on {}: the {} carries {}", $name, show($text), if ok { "result" } else { "error" }, show(&g)));
                }
            }
        }
    }};
}

fn conversions(ctx: &mut Ctx, s: &str) {
    let t = s.as_bytes();
    let cp = abnf::codepoints(s);
    let iri_ref_ok = abnf::accepts(Prod::RiRef, &cp, true);
    if !iri_ref_ok {
        ctx.stratum("skipped:invalid-by-model");
        return;
    }
    let uri_ref_ok = s.is_ascii() && abnf::accepts(Prod::RiRef, &cp, false);
    let has_scheme = crate::model::split(t).scheme.is_some();
    let iri_ok = abnf::accepts(Prod::Ri, &cp, true);
    let uri_ok = s.is_ascii() && abnf::accepts(Prod::Ri, &cp, false);
    if iri_ok != has_scheme {
        ctx.fail("C13.model", vec![], format!("model inconsistency on {}", show(t)));
    }
    ctx.stratum(if uri_ref_ok { "conv:uri-valid" } else { "conv:iri-only" });
    ctx.stratum(if has_scheme { "conv:has-scheme" } else { "conv:no-scheme" });
    let Ok(ir) = IriRef::new(s) else { return };
    // ---- from IriRef / IriRefBuf
    conv_opt!(ctx, "IriRef::as_iri", t, iri_ok, ir.as_iri());
    conv_opt!(ctx, "IriRef::as_uri", t, uri_ok, ir.as_uri());
    conv_opt!(ctx, "IriRef::as_uri_ref", t, uri_ref_ok, ir.as_uri_ref());
    conv_res!(ctx, "<&Iri>::try_from(&IriRef)", t, iri_ok, <&Iri>::try_from(ir));
    conv_res!(ctx, "<&Uri>::try_from(&IriRef)", t, uri_ok, <&Uri>::try_from(ir));
    conv_res!(ctx, "<&UriRef>::try_from(&IriRef)", t, uri_ref_ok, <&UriRef>::try_from(ir));
    let irb = ir.to_owned();
    conv_res!(ctx, "IriRefBuf::try_into_iri", t, iri_ok, irb.clone().try_into_iri());
    conv_res!(ctx, "IriRefBuf::try_into_uri", t, uri_ok, irb.clone().try_into_uri());
    conv_res!(ctx, "IriRefBuf::try_into_uri_ref", t, uri_ref_ok, irb.clone().try_into_uri_ref());
    conv_res!(ctx, "IriBuf::try_from(IriRefBuf)", t, iri_ok, IriBuf::try_from(irb.clone()));
    conv_res!(ctx, "UriBuf::try_from(IriRefBuf)", t, uri_ok, UriBuf::try_from(irb.clone()));
    conv_res!(ctx, "UriRefBuf::try_from(IriRefBuf)", t, uri_ref_ok, UriRefBuf::try_from(irb.clone()));
    // ---- the owned conversions again from buffers with spare capacity (clone() would drop it: build afresh)
    {
        let spare_s = || { let mut b = String::with_capacity(s.len() + 97); b.push_str(s); b };
        let spare_v = || { let mut b = Vec::with_capacity(s.len() + 97); b.extend_from_slice(t); b };
        if let Ok(x) = IriRefBuf::new(spare_s()) { conv_res!(ctx, "IriRefBuf::try_into_iri (spare capacity)", t, iri_ok, x.try_into_iri()); }
        if let Ok(x) = IriRefBuf::new(spare_s()) { conv_res!(ctx, "IriRefBuf::try_into_uri (spare capacity)", t, uri_ok, x.try_into_uri()); }
        if let Ok(x) = IriRefBuf::new(spare_s()) { conv_res!(ctx, "IriRefBuf::try_into_uri_ref (spare capacity)", t, uri_ref_ok, x.try_into_uri_ref()); }
        if let Ok(x) = IriBuf::new(spare_s()) { conv_res!(ctx, "IriBuf::try_into_uri (spare capacity)", t, uri_ok, x.try_into_uri()); }
        if let Ok(x) = IriBuf::new(spare_s()) { conv_opt!(ctx, "IriBuf::into_iri_ref (spare capacity)", t, true, Some(x.into_iri_ref())); }
        if let Ok(x) = UriRefBuf::new(spare_v()) { conv_res!(ctx, "UriRefBuf::try_into_uri (spare capacity)", t, uri_ok, x.try_into_uri()); }
        if let Ok(x) = UriRefBuf::new(spare_v()) { conv_res!(ctx, "UriRefBuf::try_into_iri (spare capacity)", t, uri_ok, x.try_into_iri()); }
        if let Ok(x) = UriRefBuf::new(spare_v()) { conv_opt!(ctx, "UriRefBuf::into_iri_ref (spare capacity)", t, true, Some(x.into_iri_ref())); }
        if let Ok(x) = UriBuf::new(spare_v()) { conv_opt!(ctx, "UriBuf::into_iri (spare capacity)", t, true, Some(x.into_iri())); }
        if let Ok(x) = UriBuf::new(spare_v()) { conv_opt!(ctx, "UriBuf::into_iri_ref (spare capacity)", t, true, Some(x.into_iri_ref())); }
        if let Ok(x) = UriBuf::new(spare_v()) { conv_opt!(ctx, "UriBuf::into_uri_ref (spare capacity)", t, true, Some(x.into_uri_ref())); }
    }
    // ---- from Iri / IriBuf
    if let Ok(i) = Iri::new(s) {
        conv_opt!(ctx, "Iri::as_iri_ref", t, true, Some(i.as_iri_ref()));
        conv_opt!(ctx, "Iri::as_uri", t, uri_ok, i.as_uri());
        conv_opt!(ctx, "Iri::as_uri_ref", t, uri_ref_ok, i.as_uri_ref());
        conv_opt!(ctx, "<&IriRef>::from(&Iri)", t, true, Some(<&IriRef>::from(i)));
        conv_opt!(ctx, "AsRef<IriRef> for Iri", t, true, Some(AsRef::<IriRef>::as_ref(i)));
        conv_res!(ctx, "<&Uri>::try_from(&Iri)", t, uri_ok, <&Uri>::try_from(i));
        conv_res!(ctx, "<&UriRef>::try_from(&Iri)", t, uri_ref_ok, <&UriRef>::try_from(i));
        let ib = i.to_owned();
        conv_opt!(ctx, "IriBuf::into_iri_ref", t, true, Some(ib.clone().into_iri_ref()));
        conv_opt!(ctx, "IriRefBuf::from(IriBuf)", t, true, Some(IriRefBuf::from(ib.clone())));
        conv_res!(ctx, "IriBuf::try_into_uri", t, uri_ok, ib.clone().try_into_uri());
        conv_res!(ctx, "IriBuf::try_into_uri_ref", t, uri_ref_ok, ib.clone().try_into_uri_ref());
        conv_res!(ctx, "UriBuf::try_from(IriBuf)", t, uri_ok, UriBuf::try_from(ib.clone()));
        conv_res!(ctx, "UriRefBuf::try_from(IriBuf)", t, uri_ref_ok, UriRefBuf::try_from(ib.clone()));
    } else if iri_ok {
        ctx.fail("C13.exact", feats("Iri::new", true), format!("Iri::new rejects {}", show(t)));
    }
    // ---- from UriRef / UriRefBuf
    if let Ok(ur) = UriRef::new(s) {
        conv_opt!(ctx, "UriRef::as_iri_ref", t, true, Some(ur.as_iri_ref()));
        conv_opt!(ctx, "UriRef::as_uri", t, uri_ok, ur.as_uri());
        conv_opt!(ctx, "UriRef::as_iri", t, uri_ok, ur.as_iri());
        conv_opt!(ctx, "<&IriRef>::from(&UriRef)", t, true, Some(<&IriRef>::from(ur)));
        conv_res!(ctx, "<&Uri>::try_from(&UriRef)", t, uri_ok, <&Uri>::try_from(ur));
        conv_res!(ctx, "<&Iri>::try_from(&UriRef)", t, uri_ok, <&Iri>::try_from(ur));
        let urb = ur.to_owned();
        conv_opt!(ctx, "UriRefBuf::into_iri_ref", t, true, Some(urb.clone().into_iri_ref()));
        conv_opt!(ctx, "IriRefBuf::from(UriRefBuf)", t, true, Some(IriRefBuf::from(urb.clone())));
        conv_res!(ctx, "UriRefBuf::try_into_uri", t, uri_ok, urb.clone().try_into_uri());
        conv_res!(ctx, "UriRefBuf::try_into_iri", t, uri_ok, urb.clone().try_into_iri());
        conv_res!(ctx, "UriBuf::try_from(UriRefBuf)", t, uri_ok, UriBuf::try_from(urb.clone()));
        conv_res!(ctx, "IriBuf::try_from(UriRefBuf)", t, uri_ok, IriBuf::try_from(urb.clone()));
    } else if uri_ref_ok {
        ctx.fail("C13.exact", feats("UriRef::new", true), format!("UriRef::new rejects {}", show(t)));
    }
    // ---- from Uri / UriBuf
    if let Ok(u) = Uri::new(s) {
        conv_opt!(ctx, "Uri::as_uri_ref", t, true, Some(u.as_uri_ref()));
        conv_opt!(ctx, "Uri::as_iri", t, true, Some(u.as_iri()));
        conv_opt!(ctx, "Uri::as_iri_ref", t, true, Some(u.as_iri_ref()));
        conv_opt!(ctx, "AsRef<Iri> for Uri", t, true, Some(AsRef::<Iri>::as_ref(u)));
        conv_opt!(ctx, "AsRef<IriRef> for Uri", t, true, Some(AsRef::<IriRef>::as_ref(u)));
        conv_opt!(ctx, "AsRef<UriRef> for Uri", t, true, Some(AsRef::<UriRef>::as_ref(u)));
        let ub = u.to_owned();
        conv_opt!(ctx, "UriBuf::into_uri_ref", t, true, Some(ub.clone().into_uri_ref()));
        conv_opt!(ctx, "UriBuf::into_iri", t, true, Some(ub.clone().into_iri()));
        conv_opt!(ctx, "UriBuf::into_iri_ref", t, true, Some(ub.clone().into_iri_ref()));
        conv_opt!(ctx, "UriRefBuf::from(UriBuf)", t, true, Some(UriRefBuf::from(ub.clone())));
        conv_opt!(ctx, "AsRef<Iri> for UriBuf", t, true, Some(AsRef::<Iri>::as_ref(&ub)));
        conv_opt!(ctx, "AsRef<IriRef> for UriBuf", t, true, Some(AsRef::<IriRef>::as_ref(&ub)));
    } else if uri_ok {
        ctx.fail("C13.exact", feats("Uri::new", true), format!("Uri::new rejects {}", show(t)));
    }
    ctx.nontrivial_cur();
}

fn lockstep(ctx: &mut Ctx, a: &str, b: &str, ops: &str) {
    if !a.is_ascii() || !b.is_ascii() || !ops.is_ascii() {
        return;
    }
    let (_ia, ua) = fam::valid_in(Prod::RiRef, a);
    let (_ib, ub) = fam::valid_in(Prod::RiRef, b);
    if !(ua && ub) {
        return;
    }
    ctx.stratum("lockstep");
    ctx.call("lockstep");
    let x = fam::irifam::lockstep(a, b, ops);
    let y = fam::urifam::lockstep(a, b, ops);
    for (i, (p, q)) in x.iter().zip(y.iter()).enumerate() {
        if p != q {
            let what = p.split(' ').next().unwrap_or("").to_string();
            ctx.fail("C13.lockstep", vec![("observation", what)], format!("observation #{} on a = {}, b = {}, ops {:?}: IRI family: {} ; URI family: {}", i, show(a.as_bytes()), show(b.as_bytes()), ops, p, q));
            break;
        }
    }
    if x.len() != y.len() {
        ctx.fail("C13.lockstep", vec![("observation", "count".into())], format!("the families produced {} vs {} observations on a = {}, b = {}", x.len(), y.len(), show(a.as_bytes()), show(b.as_bytes())));
    }
    ctx.add("lockstep_observations", x.len() as u64);
    ctx.nontrivial_cur();
}

pub fn exec(ctx: &mut Ctx, case: &Case) {
    let s = |i: usize| std::str::from_utf8(case.s(i)).unwrap_or("");
    match case.mon.as_str() {
        "conv" => conversions(ctx, s(0)),
        "lock" => lockstep(ctx, s(0), s(1), s(2)),
        _ => ctx.fail("C13.harness", vec![], format!("unknown sub-monitor {}", case.mon)),
    }
}

const OPS: &[&str] = &[
    "scheme-", "scheme:t", "auth-", "auth:h", "auth:u@[::1]:8", "path:", "path:/", "path:x", "path://x", "path:a:b", "query-", "query:q", "frag-", "frag:f", "ui:u", "ui-",
    "host:h2", "host:[v1.a]", "port:80", "port-", "push:a", "push:", "push:a:b", "push:..", "pop", "clear", "spush:..", "spush:.", "sappend:../x", "sappend:a/./b/", "norm",
    "resolve:s://h/a/b?q", "resolve:s:a/b",
];

pub fn generate(ctx: &mut Ctx) {
    let mut bi = 0u64;
    for s in ["", "a", "s:", "s:a", "//h", "s://h/p?q#f", "\u{e9}", "s:\u{e9}", "s://\u{e9}/", "?\u{e000}", "s:?\u{e000}", "a:b", "./a:b", "S:x", "1:x", "s:%C3%A9", "//[::1]", "#\u{e9}"] {
        if ctx.mine(bi) {
            ctx.run(Case::new("conv").arg(s));
        }
        bi += 1;
    }
    let n = ctx.by_tier(160_000u64, 8_000_000u64) / ctx.nshards;
    for i in 0..n {
        let mut rng = ctx.rng("conv", i);
        let mut o = gen::Opts::new(rng.chance(1, 2));
        o.bad_pct = rng.chance(1, 4);
        o.max_segs = 8;
        let a = gen::reference(&mut rng, o);
        ctx.run(Case::new("conv").arg(&a));
        if rng.chance(1, 3) {
            let other = gen::reference(&mut rng, o);
            let m = gen::mutate(&mut rng, &a, &other);
            if let Ok(ms) = std::str::from_utf8(&m) {
                ctx.run(Case::new("conv").arg(ms));
            }
        }
        // lock-step on ASCII inputs
        let oa = gen::Opts { iri: false, ..o };
        let hs = rng.chance(2, 3);
        let ha = rng.chance(1, 2);
        let p = gen::parts_with(&mut rng, oa, hs, ha);
        let x = p.render();
        let y = match rng.below(4) {
            0 => gen::respell_parts(&mut rng, &p).render(),
            1 => gen::perturb_parts(&mut rng, &p).render(),
            2 => gen::full(&mut rng, oa),
            _ => gen::reference(&mut rng, oa),
        };
        let mut ops: Vec<String> = Vec::new();
        // now and then the first edits write a respelling of the CURRENT user info / host / path / query / fragment
        if rng.chance(1, 3) {
            if let Some(a) = &p.authority {
                let sa = crate::model::split_authority(a.as_bytes());
                if let (Some(u), true) = (sa.user_info, rng.chance(1, 2)) {
                    ops.push(format!("ui:{}", gen::respell_component(&mut rng, std::str::from_utf8(u).unwrap_or(""), false)));
                }
                if !sa.host.starts_with(b"[") {
                    ops.push(format!("host:{}", gen::respell_component(&mut rng, std::str::from_utf8(sa.host).unwrap_or(""), false)));
                }
            }
            if let (Some(q), true) = (&p.query, rng.chance(1, 2)) {
                ops.push(format!("query:{}", gen::respell_component(&mut rng, q, false)));
            }
            if let (Some(fr), true) = (&p.fragment, rng.chance(1, 2)) {
                ops.push(format!("frag:{}", gen::respell_component(&mut rng, fr, false)));
            }
            if rng.chance(1, 3) {
                ops.push(format!("path:{}", gen::respell_path(&mut rng, &p.path)));
            }
        }
        for _ in 0..rng.below(6) {
            ops.push(rng.pick(OPS).to_string());
        }
        ctx.run(Case::new("lock").arg(&x).arg(&y).arg(ops.join("\n")));
    }
}
