//! C10 - path editing has list semantics and touches nothing but the path.

use crate::abnf::Prod;
use crate::ctx::{Case, Ctx};
use crate::{both_families, gen};

pub const RULE: &str = "cases: initial paths {'', /, a, /a, a/b, /a/b, a/, //a, ., .., a/.., ./a:b, /.//a, a//b, e-acute/x, ...} embedded in every compatible enclosing shape (with/without scheme, authority, query/fragment) x exhaustive operation histories (length <= 2 quick, <= 3 thorough) over push{a, '', ., .., a:b, 1:x, e-acute}/pop/clear/symbolic_push{a, '', ., .., a:b}/symbolic_append{a/b, ../c, ./, .., /x//y, a/../../b/.}/normalize, plus random histories of length 1-24 on random references. Each history runs (1) through one PathMut handle with the Deref view checked after every call, (2) through a fresh handle per call with frame+validity checked after every call, (3) on the stand-alone PathBuf, (4) on RiBuf; compared with a list model (modulo the permitted '.' shield) and with each other. Non-trivial = every executed history; distinct by (initial, history)";

pub const MANDATORY: &[&str] = &["context:--", "context:S-", "context:-A", "context:SA", "history-len:1", "history-len:2", "shield-observed", "zone:silent-symbolic-on-dotted-path"];

const PATHS: &[&str] = &["", "/", "a", "/a", "a/b", "/a/b", "a/", "/a/", "//a", "//", ".", "..", "a/..", "../..", "./a:b", "/.//a", "./", "/./", "a//b", "\u{e9}/x", "a:b", "a:b/c", "/a:b", "%2e/x"];
const PRES: &[&str] = &["", "s:", "//h", "s://h", "//u@[::1]:8"];
const SUFS: &[&str] = &["", "?q#f"];
const OPS: &[&str] = &[
    "push:a", "push:", "push:.", "push:..", "push:a:b", "push:1:x", "push:\u{e9}", "pop", "clear", "spush:a", "spush:", "spush:.", "spush:..", "spush:a:b",
    "sappend:a/b", "sappend:../c", "sappend:./", "sappend:..", "sappend:/x//y", "sappend:a/../../b/.", "sappend:", "norm",
];

pub fn exec(ctx: &mut Ctx, case: &Case) {
    let s = |i: usize| std::str::from_utf8(case.s(i)).unwrap_or("");
    match case.mon.as_str() {
        "hist" => {
            both_families!(ctx, Prod::RiRef, s(0), c10_history, s(1));
        }
        "exh" => {
            let len = case.n[0] as usize;
            let mut idx = vec![0usize; len];
            loop {
                let h: Vec<&str> = idx.iter().map(|&i| OPS[i]).collect();
                let ht = h.join("\n");
                ctx.evals += 1;
                if ctx.want_sample() {
                    ctx.note_sample(Case::new("hist").arg(s(0)).arg(&ht));
                }
                both_families!(ctx, Prod::RiRef, s(0), c10_history, &ht);
                let mut j = 0;
                while j < len {
                    idx[j] += 1;
                    if idx[j] < OPS.len() {
                        break;
                    }
                    idx[j] = 0;
                    j += 1;
                }
                if j >= len {
                    break;
                }
            }
        }
        _ => ctx.fail("C10.harness", vec![], format!("unknown sub-monitor {}", case.mon)),
    }
}

pub fn generate(ctx: &mut Ctx) {
    let mut bi = 0u64;
    let maxlen = if ctx.tiny() { 0 } else { ctx.by_tier(2u64, 3u64) };
    for pre in PRES {
        for p in PATHS {
            for suf in SUFS {
                let init = format!("{}{}{}", pre, p, suf);
                // only shapes in which the path survives the composition
                let (iri_ok, _) = crate::fam::valid_in(Prod::RiRef, &init);
                if !iri_ok || crate::model::split(init.as_bytes()).path != p.as_bytes() {
                    continue;
                }
                if ctx.mine(bi) {
                    for len in 1..=maxlen {
                        ctx.run(Case::new("exh").arg(&init).num(len));
                    }
                }
                bi += 1;
            }
        }
    }
    // long paths: every op, and every pair of ops, on paths beyond the inline buffers
    if !ctx.tiny() {
        let unit = "abcdefghijklmnopqrstuvwxyz0123456789";
        let long_seg = unit.repeat(16); // 576 bytes
        let many: String = (0..40).map(|i| format!("s{}/", i)).collect();
        let bodies: Vec<String> = vec![
            format!("./{}", long_seg), format!("./{}/x", long_seg), format!("../{}", long_seg), format!("{}/.", long_seg), format!("{}/..", long_seg), format!("{}/../y", long_seg),
            format!("{}/{}", long_seg, long_seg), format!("./{}x", many), format!("{}.", many), format!("{}..", many), format!("{}../..", many), format!("x/../{}", many), format!("{}{}", many, long_seg),
            format!("a:b/{}", long_seg), format!("./a:b/{}", long_seg), format!("{}/a:b", long_seg), format!("/{}", long_seg), format!("/./{}", long_seg), format!("//{}", long_seg), format!("/{}.", many),
        ];
        for body in &bodies {
            for pre in ["", "s:", "//h", "s://h"] {
                let init = format!("{}{}{}", pre, if pre.ends_with('h') && !body.starts_with('/') { "/" } else { "" }, body);
                let (iri_ok, _) = crate::fam::valid_in(Prod::RiRef, &init);
                if !iri_ok { continue; }
                if ctx.mine(bi) {
                    for a in OPS {
                        ctx.run(Case::new("hist").arg(&init).arg(*a));
                        for b2 in ["norm", "pop", "push:a", "spush:..", "clear"] {
                            ctx.run(Case::new("hist").arg(&init).arg(format!("{}\n{}", a, b2)));
                        }
                    }
                }
                bi += 1;
            }
        }
    }
    let n = ctx.random_budget(320, 120_000, 1_500_000);
    for i in 0..n {
        let mut rng = ctx.rng("hist", i);
        let mut o = gen::Opts::new(rng.chance(1, 2));
        o.max_segs = if rng.chance(1, 8) { 30 } else { 8 };
        o.long = !ctx.tiny() && rng.chance(1, 8);
        let init = gen::reference(&mut rng, o);
        let mut ops: Vec<String> = Vec::new();
        let maxops = if ctx.tiny() { 10 } else { 24 };
        for _ in 0..rng.range(1, maxops) {
            ops.push(match rng.below(10) {
                0 | 1 => format!("push:{}", gen::segment(&mut rng, o, false, false)),
                2 => "pop".to_string(),
                3 => format!("spush:{}", gen::segment(&mut rng, o, false, false)),
                4 => format!("sappend:{}", gen::path(&mut rng, o)),
                5 => "norm".to_string(),
                6 => "clear".to_string(),
                _ => rng.pick(OPS).to_string(),
            });
        }
        ctx.run(Case::new("hist").arg(&init).arg(ops.join("\n")));
    }
}
