//! C12 - segment iteration and path queries agree with the '/'-split of the text.

use crate::abnf::Prod;
use crate::ctx::{Case, Ctx};
use crate::{both_families, gen};

pub const RULE: &str = "cases: every path over the segment alphabet {'', a, e-acute, .., a:b} up to a segment bound x {absolute, relative} (exhaustive) driven by all 2^(n+2) front/back interleavings for n <= 10 segments (random masks beyond), plus random long paths; derived queries (segment_count, is_empty, is_absolute, first, last, file_name, directory, parent, parent_or_empty, normalized_segments().len()) compared with the '/'-split model. Adaptor programs: up to six steps of next/next_back/nth(k)/nth_back(k) followed by one of 32 finals (collect, last, count, rev, skip, step_by, fold, rfold, find, rfind, position, take+rest, peekable, skip_while, take_while, partition, min/max_by_key, for_each, fuse behaviour, nth past the end ...) on segments() and (&path).into_iter(), against a deque of the '/'-split. Non-trivial = (path, mask) with >= 2 segments for iteration, >= 1 for queries; distinct by (path, mask)";

pub const MANDATORY: &[&str] = &["segs:0", "segs:1", "segs:2", "segs:5", "segs:13+", "kind:absolute", "kind:relative", "kind:multibyte", "kind:leading-empty", "kind:trailing-empty"];

const SEGS: &[&str] = &["", "a", "\u{e9}", "..", "a:b"];

fn path_from(abs: bool, idx: &[usize]) -> String {
    let body: Vec<&str> = idx.iter().map(|&i| SEGS[i]).collect();
    format!("{}{}", if abs { "/" } else { "" }, body.join("/"))
}

fn kinds(ctx: &mut Ctx, p: &str) {
    ctx.stratum(if p.starts_with('/') { "kind:absolute" } else { "kind:relative" });
    if !p.is_ascii() {
        ctx.stratum("kind:multibyte");
    }
    if p.starts_with("//") {
        ctx.stratum("kind:leading-empty");
    }
    if p.len() > 1 && p.ends_with('/') {
        ctx.stratum("kind:trailing-empty");
    }
}

pub fn exec(ctx: &mut Ctx, case: &Case) {
    match case.mon.as_str() {
        "path" => {
            // one path, one mask
            let Ok(s) = std::str::from_utf8(case.s(0)) else { return };
            kinds(ctx, s);
            both_families!(ctx, Prod::Path, s, c12_interleave, case.n[0]);
            both_families!(ctx, Prod::Path, s, c12_adaptors, case.n[0]);
            both_families!(ctx, Prod::Path, s, c12_adaptors, case.n[0].rotate_left(17) ^ 0x9E37_79B9_7F4A_7C15);
            both_families!(ctx, Prod::Path, s, c12_queries);
        }
        "all-masks" => {
            // one path, every mask over n+2 steps
            let Ok(s) = std::str::from_utf8(case.s(0)) else { return };
            kinds(ctx, s);
            let steps = case.n[0];
            both_families!(ctx, Prod::Path, s, c12_queries);
            for mask in 0..(1u64 << steps) {
                ctx.evals += 1;
                if ctx.want_sample() {
                    ctx.note_sample(Case::new("path").arg(s).num(mask));
                }
                both_families!(ctx, Prod::Path, s, c12_interleave, mask);
            }
            // adaptor programs: (steps, four 4-bit ops, final) enumerated sparsely but deterministically
            let mut x = 0x1234_5678_9ABC_DEF1u64 ^ crate::rng::hash_bytes(s.as_bytes());
            for _ in 0..96 {
                x ^= x << 13; x ^= x >> 7; x ^= x << 17;
                both_families!(ctx, Prod::Path, s, c12_adaptors, x);
            }
        }
        _ => ctx.fail("C12.harness", vec![], format!("unknown sub-monitor {}", case.mon)),
    }
}

pub fn generate(ctx: &mut Ctx) {
    let mut bi = 0u64;
    let maxn = ctx.by_tier(5usize, 7usize);
    for n in 0..=maxn {
        let mut idx = vec![0usize; n];
        loop {
            for abs in [false, true] {
                if ctx.mine(bi) {
                    let p = path_from(abs, &idx);
                    ctx.run(Case::new("all-masks").arg(p.as_bytes()).num((n + 2).min(12) as u64));
                }
                bi += 1;
            }
            let mut j = 0;
            while j < n {
                idx[j] += 1;
                if idx[j] < SEGS.len() {
                    break;
                }
                idx[j] = 0;
                j += 1;
            }
            if j >= n {
                break;
            }
        }
    }
    for len in gen::sweep_lengths() {
        if len > 5000 {
            continue;
        }
        if ctx.mine(bi) {
            for unit in ["a", "\u{e9}"] {
                let b = unit.repeat(len);
                for p in [format!("{}/x/y", b), format!("/x/{}/y", b), format!("x/y/{}", b), format!("/{}/", b), format!("{}", b), format!("/{}/{}/{}", b, b, b), "x/".repeat(len), format!("/{}", "/".repeat(len))] {
                    ctx.run(Case::new("path").arg(p.as_bytes()).num(0x5555_5555_5555_5555));
                    ctx.run(Case::new("path").arg(p.as_bytes()).num(0xFFFF_FFFF_0000_0001));
                }
            }
        }
        bi += 1;
    }
    let n = ctx.by_tier(200_000u64, 8_000_000u64) / ctx.nshards;
    for i in 0..n {
        let mut rng = ctx.rng("path", i);
        let mut o = gen::Opts::new(rng.chance(1, 2));
        o.long = true;
        o.max_segs = 40;
        let p = gen::path(&mut rng, o);
        let mask = rng.next();
        ctx.run(Case::new("path").arg(p.as_bytes()).num(mask));
    }
}
