//! C17 - compile-time macros accept and produce exactly what the run-time parser does.
//!
//! This module only *generates* the programs; the observed execution is the
//! compiler (driven by lib/stages.py): one crate with every valid literal as a
//! `const`, whose binary compares each constant with the run-time parser, and
//! one crate with one invalid literal per line, for which rustc must report an
//! error on exactly those lines.

use crate::abnf::{self, Prod};
use crate::gen;
use crate::rng::Rng;
use serde_json::json;
use std::fmt::Write as _;

pub const RULE: &str = "programs: one macro invocation on a string literal per line, for uri!/uri_ref!/iri!/iri_ref!, over grammar-derived valid values, 1-3 edit mutants, non-ASCII text and characters that need escaping in Rust source (quote, backslash, newline, NUL), each literal rendered in a randomly chosen Rust spelling (plain, \\u{..}, \\x.., raw r#\"..\"#, line continuation) with the expected bytes emitted next to it as a numeric array. Spellings also include upper-case/zero-padded/underscored \\u{..}, upper-case \\xHH, r\"..\", r##\"..\"## and per-character mixtures; the invocation context varies (::iref:: path, forwarding through macro_rules as literal/expr/tt, static in a block, const fn with a lifetime). Valid set: the crate must compile and every constant must equal (bytes, parts, ==) the value parsed at run time. Invalid set: rustc must report an error on exactly the lines of the invalid literals. Non-trivial = every literal; distinct by (macro, literal bytes)";

struct Lit {
    mac: &'static str,
    ty: &'static str,
    text: String,
    spelling: String,
    kind: &'static str,
}

/// One character as a `\u{..}` escape in one of the spellings rustc accepts: `\u{` (HEX_DIGIT `_`*){1,6} `}`.
fn unicode_escape_variant(rng: &mut Rng, c: char) -> String {
    let hex = format!("{:x}", c as u32);
    let digits: String = match rng.below(4) {
        0 => hex.clone(),
        1 => hex.to_uppercase(),
        2 => format!("{:0>6}", hex),
        _ => format!("{:0>w$}", hex, w = (hex.len() + 1).min(6)),
    };
    let mut o = String::from("\\u{");
    let style = rng.below(4);
    for (i, d) in digits.chars().enumerate() {
        o.push(d);
        match style {
            1 if i + 1 < digits.len() => o.push('_'),
            2 if i == 0 => o.push_str("__"),
            3 if i + 1 == digits.len() => o.push('_'),
            _ => {}
        }
    }
    o.push('}');
    o
}

fn rust_spelling(rng: &mut Rng, s: &str, allow_multiline: bool) -> (String, &'static str) {
    let raw_ok = !s.contains("\"#") && !s.contains('\r');
    // the richer spellings (every form of escape and raw string rustc accepts for a str literal)
    if rng.chance(1, 3) {
        match rng.below(5) {
            0 if !s.contains('"') && !s.contains('\r') && !s.contains('\n') => return (format!("r\"{}\"", s), "raw-no-hash"),
            1 if !s.contains("\"##") && !s.contains('\r') && !s.contains('\n') => return (format!("r##\"{}\"##", s), "raw-two-hashes"),
            2 => {
                let mut o = String::from("\"");
                for c in s.chars() { o.push_str(&unicode_escape_variant(rng, c)); }
                o.push('"');
                return (o, "unicode-escape-variants");
            }
            3 => {
                let mut o = String::from("\"");
                for c in s.chars() {
                    if (c as u32) < 0x80 { write!(o, "\\x{:02X}", c as u32).unwrap(); } else { o.push(c); }
                }
                o.push('"');
                return (o, "hex-escapes-upper");
            }
            _ => {
                // every character in a spelling of its own
                let mut o = String::from("\"");
                for c in s.chars() {
                    match rng.below(4) {
                        0 => o.push_str(&unicode_escape_variant(rng, c)),
                        1 if (c as u32) < 0x80 => write!(o, "\\x{:02x}", c as u32).unwrap(),
                        _ => o.push_str(&plain_escape(&c.to_string())),
                    }
                }
                o.push('"');
                return (o, "mixed-escapes");
            }
        }
    }
    match rng.below(if allow_multiline { 6 } else { 5 }) {
        0 if raw_ok && !s.contains('\n') => (format!("r#\"{}\"#", s), "raw"),
        1 => {
            // every char as \u{..}
            let mut o = String::from("\"");
            for c in s.chars() {
                write!(o, "\\u{{{:x}}}", c as u32).unwrap();
            }
            o.push('"');
            (o, "unicode-escapes")
        }
        2 => {
            // ASCII as \x.., others literal
            let mut o = String::from("\"");
            for c in s.chars() {
                if (c as u32) < 0x80 {
                    write!(o, "\\x{:02x}", c as u32).unwrap();
                } else {
                    o.push(c);
                }
            }
            o.push('"');
            (o, "hex-escapes")
        }
        5 if s.chars().count() >= 2 && !s.contains(' ') && !s.contains('\n') && !s.contains('\t') => {
            // line continuation in the middle: the newline and the following whitespace are skipped
            let k = s.char_indices().nth(s.chars().count() / 2).map(|(i, _)| i).unwrap_or(0);
            let esc = |t: &str| -> String { t.chars().flat_map(|c| c.escape_default()).collect::<String>() };
            let (a, b) = (&s[..k], &s[k..]);
            // the second half must not start with whitespace (it would be eaten)
            if b.chars().next().map_or(true, |c| c.is_whitespace()) {
                (format!("{:?}", s), "plain")
            } else {
                (format!("\"{}\\\n        {}\"", plain_escape(a), plain_escape(b)), { let _ = esc; "line-continuation" })
            }
        }
        _ => (format!("\"{}\"", plain_escape(s)), "plain"),
    }
}

fn plain_escape(s: &str) -> String {
    let mut o = String::new();
    for c in s.chars() {
        match c {
            '"' => o.push_str("\\\""),
            '\\' => o.push_str("\\\\"),
            '\n' => o.push_str("\\n"),
            '\r' => o.push_str("\\r"),
            '\t' => o.push_str("\\t"),
            '\0' => o.push_str("\\0"),
            c if (c as u32) < 0x20 || c as u32 == 0x7f => write!(o, "\\u{{{:x}}}", c as u32).unwrap(),
            c => o.push(c),
        }
    }
    o
}

const MACROS: [(&str, &str, Prod, bool); 4] = [("uri", "Uri", Prod::Ri, false), ("uri_ref", "UriRef", Prod::RiRef, false), ("iri", "Iri", Prod::Ri, true), ("iri_ref", "IriRef", Prod::RiRef, true)];

fn model_valid(p: Prod, iri: bool, s: &str) -> bool {
    if iri {
        abnf::accepts(p, &abnf::codepoints(s), true)
    } else {
        s.is_ascii() && abnf::accepts(p, &abnf::codepoints(s), false)
    }
}

/// Writes `<dir>/valid` and `<dir>/invalid` crates plus `<dir>/expected.json`.
pub fn generate_crates(dir: &str, thorough: bool, seed: u64, repo: &str) -> std::io::Result<()> {
    let per_macro = if thorough { 4000 } else { 400 };
    let mut valid: Vec<Lit> = Vec::new();
    let mut invalid: Vec<Lit> = Vec::new();
    let fixed_valid = ["s:", "http://a/b/c/d;p?q#f", "s://u:p@[::1]:80/a/./b/../c?q#f", "s:/.//a", "s:a:b", "x-y.z+1://h", "s:%41%c3%a9", "S://H/%7e"];
    let fixed_ref = ["", "a", "./a:b", "//h", "/.//a", "?q", "#f", "../..", "a/b/../c/."];
    let fixed_iri = ["s:\u{e9}", "s://\u{e9}.org/\u{4e2d}?\u{e000}#\u{1f600}", "s:\u{a0}\u{d7ff}"];
    let fixed_invalid = ["", ":", "1:x", "s: ", "s:\"", "s:\\", "s:\n", "s:\0", "s:%", "s:%4", "s:[", "s://[::1", "s:<>", "a b", "s:\u{7f}", "s:\u{fffe}", "s:#\u{e000}", "s:\t", "s://h:p", "s:{}"];
    for (mi, (mac, ty, prod, iri)) in MACROS.iter().enumerate() {
        let mut rng = Rng::for_case(seed, "C17", mac, mi as u64, 0);
        let mut pool: Vec<String> = Vec::new();
        pool.extend(fixed_valid.iter().map(|s| s.to_string()));
        pool.extend(fixed_ref.iter().map(|s| s.to_string()));
        pool.extend(fixed_iri.iter().map(|s| s.to_string()));
        pool.extend(fixed_invalid.iter().map(|s| s.to_string()));
        while pool.len() < per_macro {
            let mut o = gen::Opts::new(*iri || rng.chance(1, 4));
            o.bad_pct = rng.chance(1, 4);
            o.max_segs = 6;
            let v = if *prod == Prod::Ri && rng.chance(3, 4) { gen::full(&mut rng, o) } else { gen::reference(&mut rng, o) };
            if rng.chance(2, 5) {
                let other = gen::reference(&mut rng, o);
                let m = gen::mutate(&mut rng, &v, &other);
                if let Ok(ms) = String::from_utf8(m) {
                    // characters that need escaping in Rust source
                    let ms = if rng.chance(1, 8) { format!("{}{}", ms, rng.pick(&["\"", "\\", "\n", "\0", "\\n", "\"#", "{", "}"])) } else { ms };
                    pool.push(ms);
                    continue;
                }
            }
            pool.push(v);
        }
        let mut seen = std::collections::HashSet::new();
        for text in pool {
            if text.len() > 300 || !seen.insert(text.clone()) {
                continue;
            }
            let ok = model_valid(*prod, *iri, &text);
            let (spelling, kind) = rust_spelling(&mut rng, &text, ok);
            let l = Lit { mac, ty, text, spelling, kind };
            if ok {
                valid.push(l)
            } else {
                invalid.push(l)
            }
        }
    }
    let cargo = |name: &str| -> String {
        format!("[package]\nname = \"{}\"\nversion = \"0.0.0\"\nedition = \"2021\"\npublish = false\n\n[dependencies]\niref = {{ path = \"{}\", features = [\"macros\"] }}\n\n[workspace]\n", name, repo)
    };
    // ---------------- valid crate
    let vdir = format!("{}/valid", dir);
    std::fs::create_dir_all(format!("{}/src", vdir))?;
    std::fs::write(format!("{}/Cargo.toml", vdir), cargo("c17-valid"))?;
    let mut src = String::new();
    src.push_str("#![allow(dead_code, non_upper_case_globals)]\n// generated by iref-verif (C17): every literal below is valid for its macro (RFC model)\nuse iref::{Iri, IriRef, Uri, UriRef};\n\n");
    let mut expected = Vec::new();
    // forwarding macros: the literal reaches the proc macro as a `literal`, `expr` (invisible group) or `tt` fragment
    src.push_str("macro_rules! fwd_literal { ($m:ident, $l:literal) => { iref::$m!($l) } }\nmacro_rules! fwd_expr { ($m:ident, $l:expr) => { iref::$m!($l) } }\nmacro_rules! fwd_tt { ($m:ident, $l:tt) => { iref::$m!($l) } }\n\n");
    for (i, l) in valid.iter().enumerate() {
        // the invocation context varies (always one line starting with `const V<i>:` unless the literal itself continues)
        let inv = match (crate::rng::hash_bytes(l.text.as_bytes()) ^ i as u64) % 12 {
            0 => format!("::iref::{}!({})", l.mac, l.spelling),
            1 => format!("fwd_literal!({}, {})", l.mac, l.spelling),
            2 => format!("fwd_expr!({}, {})", l.mac, l.spelling),
            3 => format!("fwd_tt!({}, {})", l.mac, l.spelling),
            4 => format!("{{ static INNER: &'static {} = iref::{}!({}); INNER }}", l.ty, l.mac, l.spelling),
            5 => format!("{{ const fn pick<'a>(x: &'a {}, _y: &'a {}) -> &'a {} {{ x }} pick(iref::{}!({}), iref::{}!({})) }}", l.ty, l.ty, l.ty, l.mac, l.spelling, l.mac, l.spelling),
            6 => {
                // a scope in which the usual crate names are shadowed: the expansion must not depend on them
                writeln!(src, "const V{}: &'static {} = shadow_{}::X; mod shadow_{} {{ mod std {{}} mod core {{}} mod alloc {{}} mod iref {{}} mod iref_core {{}} pub const X: &'static ::iref::{} = ::iref::{}!({}); }}", i, l.ty, i, i, l.ty, l.mac, l.spelling).unwrap();
                continue;
            }
            _ => format!("iref::{}!({})", l.mac, l.spelling),
        };
        writeln!(src, "const V{}: &'static {} = {};", i, l.ty, inv).unwrap();
    }
    src.push_str("\nmacro_rules! check {\n    ($id:expr, $T:ty, $parse:expr, $v:expr, $bytes:expr) => {{\n        let v: &'static $T = $v;\n        let bytes: &[u8] = $bytes;\n        if v.as_bytes() != bytes {\n            println!(\"MISMATCH {} bytes {:?}\", $id, v.as_bytes());\n        }\n        match $parse(bytes) {\n            Ok(r) => {\n                if r != v || !(r.parts() == v.parts()) || r.as_bytes() != v.as_bytes() {\n                    println!(\"MISMATCH {} runtime-differs\", $id);\n                }\n            }\n            Err(_) => println!(\"MISMATCH {} runtime-rejects\", $id),\n        }\n        println!(\"CHECKED {}\", $id);\n    }};\n}\n\n");
    for (i, l) in valid.iter().enumerate() {
        if i % 100 == 0 {
            if i > 0 { src.push_str("}\n"); }
            writeln!(src, "fn chunk{}() {{", i / 100).unwrap();
        }
        let bytes: Vec<String> = l.text.bytes().map(|b| b.to_string()).collect();
        let parse = if l.ty.starts_with("Iri") { format!("|b: &'static [u8]| <{}>::new(std::str::from_utf8(b).unwrap())", l.ty) } else { format!("|b: &'static [u8]| <{}>::new(b)", l.ty) };
        writeln!(src, "    check!({}, {}, {}, V{}, &[{}]);", i, l.ty, parse, i, bytes.join(",")).unwrap();
        expected.push(json!({"set": "valid", "id": i, "macro": l.mac, "text": l.text, "spelling_kind": l.kind, "spelling": l.spelling}));
    }
    if !valid.is_empty() { src.push_str("}\n"); }
    src.push_str("\nfn main() {\n");
    for k in 0..((valid.len() + 99) / 100) {
        writeln!(src, "    chunk{}();", k).unwrap();
    }
    src.push_str("}\n");
    std::fs::write(format!("{}/src/main.rs", vdir), src)?;
    // ---------------- invalid crate: one literal per line, line number = index + offset
    let idir = format!("{}/invalid", dir);
    std::fs::create_dir_all(format!("{}/src", idir))?;
    std::fs::write(format!("{}/Cargo.toml", idir), cargo("c17-invalid"))?;
    let mut src = String::new();
    src.push_str("#![allow(dead_code)]\n// generated by iref-verif (C17): every literal below is INVALID for its macro (RFC model)\n");
    let offset = 3; // first literal is on line 3
    for (i, l) in invalid.iter().enumerate() {
        writeln!(src, "const _: &'static iref::{} = iref::{}!({});", l.ty, l.mac, l.spelling).unwrap();
        expected.push(json!({"set": "invalid", "id": i, "line": i + offset, "macro": l.mac, "text": l.text, "spelling_kind": l.kind, "spelling": l.spelling}));
    }
    // a control line that must compile
    src.push_str("const CONTROL: &'static iref::Uri = iref::uri!(\"s:control\");\n");
    std::fs::write(format!("{}/src/lib.rs", idir), src)?;
    std::fs::write(format!("{}/expected.json", dir), serde_json::to_string(&json!({"literals": expected, "n_valid": valid.len(), "n_invalid": invalid.len(), "control_line": invalid.len() + offset, "rule": RULE})).unwrap())?;
    Ok(())
}
