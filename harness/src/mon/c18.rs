//! C18 - data URL views are coherent and reassemble the original (feature `data`).

use crate::abnf::{self, Prod};
use crate::ctx::{guard, show, Case, Ctx, Feats};
use crate::{fam, gen, model};
use iref::uri::data::{DataUrl, DataUrlBuf};
use std::str::FromStr;

pub const RULE: &str = "cases: every string of up to a bounded number of symbols over {a ; , / # ? %41 = QQ== Zm9v space base64 ;base64, \\u{e9}} after 'data:' (exhaustive), grammar-derived URIs with scheme data/DATA/dat, ';base64' inserted at every position, truncations of ';base64,', random base64 payloads (canonical and not), non-UTF-8 bytes. Borrowed and owned constructors must agree; an accepted value must be a valid URI starting with 'data:' that contains a ',' (checked by the model BEFORE any scanning accessor runs); borrowed and owned parts/media_type/is_base_64_encoded/encoded_data/decoded_data must be identical and reassemble the text; decoded data is checked against an independent base64 codec. Non-trivial = accepted data URLs; distinct by text";

pub const MANDATORY: &[&str] = &["accepted", "rejected", "base64:yes", "base64:no", "media-type:present", "media-type:absent", "decode:ok", "decode:error"];

fn feats(what: &str, text: &[u8]) -> Feats {
    let t = String::from_utf8_lossy(text).to_string();
    vec![("check", what.to_string()), ("has_base64_marker", if t.contains(";base64,") { "yes".into() } else { "no".into() }), ("has_semicolon", if t.contains(';') { "yes".into() } else { "no".into() })]
}

fn check(ctx: &mut Ctx, input: &[u8]) {
    // --- constructors agree
    let r = guard(|| {
        let b = DataUrl::new(input).is_ok();
        let o = DataUrlBuf::new(input.to_vec()).is_ok();
        let (fs, fr, tf) = match std::str::from_utf8(input) {
            Ok(s) => (Some(DataUrlBuf::from_string(s.to_string()).is_ok()), Some(DataUrlBuf::from_str(s).is_ok()), Some(<&DataUrl>::try_from(s).is_ok())),
            Err(_) => (None, None, None),
        };
        (b, o, fs, fr, tf)
    });
    let (b, o, fs, fr, tf) = match r {
        Ok(x) => x,
        Err(m) => {
            ctx.fail("C18.panic", feats("constructors", input), format!("a data URL constructor panicked on {}: {}", show(input), m));
            return;
        }
    };
    ctx.call("DataUrl::new");
    let all = [Some(b), Some(o), fs, fr, tf];
    if all.iter().flatten().any(|x| *x != b) {
        ctx.fail("C18.constructors", feats("constructors", input), format!("constructors disagree on {}: borrowed new {}, owned new {}, from_string {:?}, FromStr {:?}, TryFrom<&str> {:?}", show(input), b, o, fs, fr, tf));
    }
    // error payloads hand the input back
    if !b {
        ctx.stratum("rejected");
        if let Ok(Err(e)) = guard(|| DataUrlBuf::new(input.to_vec()).map(|_| ())) {
            if e.0 != input {
                ctx.fail("C18.constructors", feats("error payload", input), format!("the error of DataUrlBuf::new does not carry the input {}", show(input)));
            }
        }
        return;
    }
    ctx.stratum("accepted");
    // --- accepted => valid URI of the right shape (checked by the model before any accessor runs)
    let uri_ok = abnf::accepts_bytes(Prod::Ri, input, false);
    let rest = input.strip_prefix(b"data:");
    let shape_ok = match rest {
        Some(r) => r.contains(&b','),
        None => false,
    };
    if !uri_ok || !shape_ok {
        ctx.fail("C18.accept", feats("accepted-shape", input), format!("{} is accepted as a data URL but is not a valid URI of the shape 'data:' media-type [';base64'] ',' data", show(input)));
        return;
    }
    let text = std::str::from_utf8(input).unwrap();
    let Ok(bv) = DataUrl::new(input) else { return };
    let Ok(ov) = DataUrlBuf::new(input.to_vec()) else { return };
    let r = guard(|| {
        let bp = bv.parts();
        let op = ov.parts();
        (
            (bp.media_type.map(String::from), bp.base_64, bp.data.to_string()),
            (op.media_type.map(String::from), op.base_64, op.data.to_string()),
            (bv.media_type().map(String::from), bv.is_base_64_encoded(), bv.encoded_data().to_string()),
            (ov.media_type().map(String::from), ov.is_base_64_encoded(), ov.encoded_data().to_string()),
            bv.decoded_data().map(|c| c.into_owned()).map_err(|e| e.to_string()),
            ov.decoded_data().map(|c| c.into_owned()).map_err(|e| e.to_string()),
            bv.as_str().to_string(),
            ov.as_data_url().as_str().to_string(),
        )
    });
    let (bp, op, ba, oa, bd, od, bs, os) = match r {
        Ok(x) => x,
        Err(m) => {
            ctx.fail("C18.panic", feats("accessors", input), format!("a data URL accessor panicked on {}: {}", show(input), m));
            return;
        }
    };
    ctx.call("accessors");
    if bs != text || os != text {
        ctx.fail("C18.text", feats("as_str", input), format!("as_str of {} gives {:?} / {:?}", show(input), bs, os));
    }
    if bp != op || bp != ba || bp != oa {
        ctx.fail("C18.coherent", feats("views", input), format!("views of {} differ: borrowed parts {:?}, owned parts {:?}, borrowed accessors {:?}, owned accessors {:?}", show(input), bp, op, ba, oa));
        return;
    }
    if bd != od {
        ctx.fail("C18.coherent", feats("decoded_data", input), format!("decoded_data of {} differs: borrowed {:?}, owned {:?}", show(input), bd, od));
    }
    let (mt, b64, data) = bp;
    let re = format!("data:{}{},{}", mt.clone().unwrap_or_default(), if b64 { ";base64" } else { "" }, data);
    if re != text {
        ctx.fail("C18.reassemble", feats("reassemble", input), format!("{} reassembles to {:?} (media type {:?}, base64 {}, data {:?})", show(input), re, mt, b64, data));
    }
    if mt.as_deref() == Some("") {
        ctx.fail("C18.coherent", feats("media_type", input), format!("media type of {} is Some(\"\")", show(input)));
    }
    ctx.stratum(if b64 { "base64:yes" } else { "base64:no" });
    ctx.stratum(if mt.is_some() { "media-type:present" } else { "media-type:absent" });
    match (&bd, b64) {
        (Ok(d), false) => {
            ctx.stratum("decode:ok");
            if d != data.as_bytes() {
                ctx.fail("C18.decode", feats("decoded_data", input), format!("{} is not base64 but decoded_data differs from the data bytes", show(input)));
            }
        }
        (Err(e), false) => ctx.fail("C18.decode", feats("decoded_data", input), format!("{} is not base64 but decoded_data fails: {}", show(input), e)),
        (Ok(d), true) => {
            ctx.stratum("decode:ok");
            if model::b64_encode(d) != data.as_bytes() {
                ctx.fail("C18.decode", feats("decoded_data", input), format!("{}: decoded_data gives {:02x?} whose base64 encoding is not the data part {:?}", show(input), d, data));
            }
        }
        (Err(_), true) => {
            ctx.stratum("decode:error");
            if model::b64_is_canonical(data.as_bytes()) {
                ctx.fail("C18.decode", feats("decoded_data", input), format!("{}: the data part {:?} is canonical base64 but decoded_data fails", show(input), data));
            }
        }
    }
    ctx.nontrivial(crate::rng::hash_bytes(input));
}

const ALPHA: &[&str] = &["a", ";", ",", "/", "#", "?", "%41", "=", "QQ==", "Zm9v", " ", "base64", ";base64,", "\u{e9}"];

pub fn exec(ctx: &mut Ctx, case: &Case) {
    match case.mon.as_str() {
        "one" => check(ctx, case.s(0)),
        "enum" => {
            let pre = String::from_utf8_lossy(case.s(0)).to_string();
            fam::enum_strings(ALPHA, case.n[0] as usize, case.n[1], |s| {
                ctx.evals += 1;
                let t = format!("{}{}", pre, s);
                if ctx.want_sample() {
                    ctx.note_sample(Case::new("one").arg(&t));
                }
                check(ctx, t.as_bytes());
            });
        }
        _ => ctx.fail("C18.harness", vec![], format!("unknown sub-monitor {}", case.mon)),
    }
}

pub fn generate(ctx: &mut Ctx) {
    let mut bi = 0u64;
    let maxlen = ctx.by_tier(4usize, 5usize);
    for pre in ["data:", "DATA:", "dat:", "data", "data:text/plain"] {
        for len in 0..=maxlen {
            if pre != "data:" && len > 3 {
                continue;
            }
            for p in 0..fam::n_prefixes(ALPHA.len(), len) {
                if ctx.mine(bi) {
                    ctx.run(Case::new("enum").arg(pre).num(len as u64).num(p));
                }
                bi += 1;
            }
        }
    }
    for n in [120usize, 250, 255, 256, 257, 300, 511, 512, 70000] {
        if ctx.mine(bi) {
            let mt = "a".repeat(n);
            for b64 in ["", ";base64"] {
                ctx.run(Case::new("one").arg(format!("data:{}{},QQ==", mt, b64)));
                ctx.run(Case::new("one").arg(format!("data:{}/{}{},{}", mt, mt, b64, "Zm9v".repeat(n / 4))));
            }
        }
        bi += 1;
    }
    let fixed: &[&str] = &[
        "data:,", "data:,A%20brief%20note", "data:text/plain;base64,SGVsbG8sIFdvcmxkIQ==", "data:text/plain;charset=UTF-8,x", "data:;base64,", "data:;base64,Zg==",
        "data:;base64,Zg=", "data:;base64,Zh==", "data:;base64,Z", "data:;base64,Zm9v", "data:;base64,Zm9vYg==", "data:;base64,Zm9vYmE=", "data:;base64,Zm 9v",
        "data:a#b,c", "data:a,b#c,d", "data:a/b;base64,QQ==#f", "data:;base64", "data:;base6,", "data:;base64;,", "data:text/plain;base64;base64,QQ==", "data:,;base64,QQ==",
        "data:a;b,c", "data://h/p,x", "data:/,", "data:?,", "data:%41,", "data:a b,c", "", "data:", "data", "dat:,", "DATA:,", "Data:,x",
    ];
    for s in fixed {
        if ctx.mine(bi) {
            ctx.run(Case::new("one").arg(s));
            // ';base64' at every position and truncations of ';base64,'
            for i in 0..=s.len() {
                if s.is_char_boundary(i) {
                    for ins in [";base64", ";base64,", ";base6", ",", ";"] {
                        let t = format!("{}{}{}", &s[..i], ins, &s[i..]);
                        ctx.run(Case::new("one").arg(&t));
                    }
                }
            }
        }
        bi += 1;
    }
    for ill in gen::ILL_FORMED {
        if ctx.mine(bi) {
            let mut v = b"data:,".to_vec();
            v.extend_from_slice(ill);
            ctx.run(Case::new("one").arg(&v));
            let mut w = b"data:".to_vec();
            w.extend_from_slice(ill);
            w.extend_from_slice(b",x");
            ctx.run(Case::new("one").arg(&w));
        }
        bi += 1;
    }
    let n = ctx.by_tier(200_000u64, 20_000_000u64) / ctx.nshards;
    for i in 0..n {
        let mut rng = ctx.rng("data", i);
        let o = gen::Opts::new(false);
        let s = match rng.below(6) {
            0 => {
                // a URI with scheme data / DATA / dat
                let ha = rng.chance(1, 4);
                let p = gen::parts_with(&mut rng, o, true, ha);
                let mut p = p;
                p.scheme = Some(rng.pick(&["data", "data", "DATA", "dat", "datax"]).to_string());
                p.render()
            }
            1 | 2 => {
                // random base64 payload, sometimes corrupted
                let len = rng.below(12);
                let d: Vec<u8> = (0..len).map(|_| rng.next() as u8).collect();
                let mut e = String::from_utf8(model::b64_encode(&d)).unwrap();
                match rng.below(6) {
                    0 if !e.is_empty() => {
                        e.pop();
                    }
                    1 => e.push('='),
                    2 if e.len() > 2 => {
                        let k = rng.below(e.len());
                        e.replace_range(k..k + 1, rng.pick(&["-", "_", "%", "B", " "]));
                    }
                    _ => {}
                }
                format!("data:{}{};base64,{}", rng.pick(&["", "text/plain", "a/b", "image/svg+xml"]), rng.pick(&["", ";charset=x"]), e)
            }
            3 if rng.chance(1, 3) => {
                // media types longer than any fixed-width offset
                let mut mt = String::from("application/");
                for _ in 0..rng.range(100, 700) {
                    mt.push_str(rng.pick(&["a", "b", "x-", "1", "+", "."]));
                }
                format!("data:{}{},{}", mt, rng.pick(&["", ";base64"]), rng.pick(&["", "QQ==", "x", "Zm9v"]))
            }
            _ => {
                let mt = rng.pick(&["", "text/plain", "a", "a/b", "a;b", "a,b", "\u{e9}", "a b", "a#b", "a?b", "%41"]);
                let b64 = rng.pick(&["", ";base64", ";base64", ";BASE64", ";base64x", ";base6"]);
                let data = rng.pick(&["", "x", "QQ==", "Zm9v", "a,b", "a;base64,b", "%41", "#f", "?q", "a b", "\u{e9}"]);
                format!("data:{}{},{}", mt, b64, data)
            }
        };
        ctx.run(Case::new("one").arg(&s));
    }
}
