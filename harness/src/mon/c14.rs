//! C14 - text is preserved through every route in and out, including serde.

use crate::abnf::{self, Prod};
use crate::ctx::{guard, show, Case, Ctx, Feats};
use crate::gen;
use iref::{iri, uri};
use std::str::FromStr;

pub const RULE: &str = "cases: grammar-derived valid values and 1-3 edit mutants (about half invalid) for each of the 20 validated types, plus JSON documents with escapes (\\u00e9, \\/, surrogate pairs), non-strings and byte arrays. Outward routes (Display, Debug, as_str/as_bytes, Deref, into_string/into_bytes, to_owned, Clone, AsRef, From, serde_json::to_string) must give exactly the parsed text; == with str/&str/String/[u8] must be plain text equality (probed with the text itself and with a different text); inward routes (FromStr, TryFrom, from_vec, serde_json::{from_str, from_slice} into borrowed and owned forms) must accept exactly what the RFC model accepts and keep the text. Also: the case-flipped text, the text minus its last character, byte arrays [u8; N] of the text's length / shorter (strict prefix) / longer, values that borrow a prefix or suffix of the compared text (aliasing), into_pct_string/as_pct_str as routes out, code points with a reputation (BOM, special spaces, separators) in leading/inner/trailing position. Non-trivial = every (type, input) on which a value was obtained or a route rejected; distinct by (type, input)";

pub const MANDATORY: &[&str] = &["out:Iri", "out:UriRef", "out:iri::Path", "out:uri::Segment", "out:Scheme", "out:Port", "in-reject:Iri", "in-reject:uri::Host", "serde:owned-ok", "serde:borrowed-ok", "serde:escaped", "serde:rejected-invalid", "serde:rejected-non-string"];

fn feats(ty: &str, route: &str) -> Feats {
    vec![("type", ty.to_string()), ("route", route.to_string())]
}

fn same(ctx: &mut Ctx, ty: &'static str, route: &'static str, input: &[u8], got: &[u8]) {
    ctx.call(route);
    if input != got {
        ctx.fail("C14.out", feats(ty, route), format!("{} via {}: got {} but the value was parsed from {}", ty, route, show(got), show(input)));
    }
}
fn verdict(ctx: &mut Ctx, ty: &'static str, route: &'static str, input: &[u8], want: bool, got: bool) {
    ctx.call(route);
    if want != got {
        ctx.fail("C14.in", feats(ty, route), format!("{} via {}: input {} is {} but the validating constructor (model) says {}", ty, route, show(input), if got { "accepted" } else { "rejected" }, if want { "accept" } else { "reject" }));
    }
}

/// serde routes shared by both kinds of types.
macro_rules! serde_routes {
    ($ctx:expr, $name:literal, $T:ty, $TBuf:ty, $s:expr, $want:expr) => {{
        let s: &str = $s;
        let b = s.as_bytes();
        let want: bool = $want;
        // plain JSON string (serde_json escapes what it must)
        let json = serde_json::to_string(s).unwrap();
        let has_escape = json.len() != s.len() + 2;
        match guard(|| serde_json::from_str::<$TBuf>(&json).map(|v| v.as_bytes().to_vec()).ok()) {
            Ok(r) => {
                verdict($ctx, $name, "serde_json::from_str (owned)", b, want, r.is_some());
                if let Some(g) = r { same($ctx, $name, "serde_json::from_str (owned)", b, &g); $ctx.stratum("serde:owned-ok"); } else { $ctx.stratum("serde:rejected-invalid"); }
            }
            Err(m) => $ctx.fail("C14.panic", feats($name, "serde_json::from_str (owned)"), format!("panicked on {}: {}", show(b), m)),
        }
        match guard(|| serde_json::from_slice::<$TBuf>(json.as_bytes()).map(|v| v.as_bytes().to_vec()).ok()) {
            Ok(r) => { verdict($ctx, $name, "serde_json::from_slice (owned)", b, want, r.is_some()); if let Some(g) = r { same($ctx, $name, "serde_json::from_slice (owned)", b, &g); } }
            Err(m) => $ctx.fail("C14.panic", feats($name, "serde_json::from_slice (owned)"), format!("panicked on {}: {}", show(b), m)),
        }
        match guard(|| serde_json::from_str::<&$T>(&json).map(|v| v.as_bytes().to_vec()).ok()) {
            Ok(r) => {
                // a borrowed value cannot be produced from a JSON string that contains escapes
                if r.is_some() && !want { verdict($ctx, $name, "serde_json::from_str (borrowed)", b, want, true); }
                if r.is_none() && want && !has_escape { verdict($ctx, $name, "serde_json::from_str (borrowed)", b, want, false); }
                if let Some(g) = r { same($ctx, $name, "serde_json::from_str (borrowed)", b, &g); $ctx.stratum("serde:borrowed-ok"); }
            }
            Err(m) => $ctx.fail("C14.panic", feats($name, "serde_json::from_str (borrowed)"), format!("panicked on {}: {}", show(b), m)),
        }
        // the same string with every character escaped as \uXXXX (forces serde's owned path)
        let mut esc = String::from("\"");
        for u in s.encode_utf16() { esc.push_str(&format!("\\u{:04x}", u)); }
        esc.push('"');
        $ctx.stratum("serde:escaped");
        match guard(|| serde_json::from_str::<$TBuf>(&esc).map(|v| v.as_bytes().to_vec()).ok()) {
            Ok(r) => { verdict($ctx, $name, "serde_json::from_str (escaped, owned)", b, want, r.is_some()); if let Some(g) = r { same($ctx, $name, "serde_json::from_str (escaped, owned)", b, &g); } }
            Err(m) => $ctx.fail("C14.panic", feats($name, "serde_json::from_str (escaped, owned)"), format!("panicked on {}: {}", show(b), m)),
        }
        if let Ok(Some(_)) = guard(|| serde_json::from_str::<&$T>(&esc).ok().map(|_| ())) {
            if !want { verdict($ctx, $name, "serde_json::from_str (escaped, borrowed)", b, want, true); }
        }
    }};
}

macro_rules! non_string_json {
    ($ctx:expr, $name:literal, $T:ty, $TBuf:ty) => {{
        for j in ["null", "1", "true", "[]", "[104,58]", "{}", "{\"a\":\"s:\"}", "", "\"s:", "\"\\ud800\"", "\"s:\" x"] {
            let ok1 = guard(|| serde_json::from_str::<$TBuf>(j).is_ok()).unwrap_or(true);
            let ok2 = guard(|| serde_json::from_str::<&$T>(j).is_ok()).unwrap_or(true);
            $ctx.call("serde_json::from_str (non-string)");
            if ok1 || ok2 {
                $ctx.fail("C14.in", feats($name, "serde_json::from_str (non-string)"), format!("{}: the JSON document {:?} was accepted", $name, j));
            } else {
                $ctx.stratum("serde:rejected-non-string");
            }
        }
    }};
}

macro_rules! str_type {
    ($ctx:expr, $s:expr, $name:literal, $T:ty, $TBuf:ty, $prod:expr, $eqk:tt) => {{
        let s: &str = $s;
        let b = s.as_bytes();
        let want = abnf::accepts($prod, &abnf::codepoints(s), true);
        match <$T>::new(s) {
            Ok(v) => {
                $ctx.stratum(concat!("out:", $name));
                same($ctx, $name, "Display", b, v.to_string().as_bytes());
                same($ctx, $name, "Debug", format!("{:?}", s).as_bytes(), format!("{:?}", v).as_bytes());
                same($ctx, $name, "as_str", b, v.as_str().as_bytes());
                same($ctx, $name, "as_bytes", b, v.as_bytes());
                same($ctx, $name, "Deref", b, (&**v).as_bytes());
                same($ctx, $name, "AsRef<str>", b, AsRef::<str>::as_ref(v).as_bytes());
                same($ctx, $name, "AsRef<[u8]>", b, AsRef::<[u8]>::as_ref(v));
                same($ctx, $name, "<&str>::from", b, <&str>::from(v).as_bytes());
                let o = v.to_owned();
                same($ctx, $name, "to_owned", b, o.as_bytes());
                same($ctx, $name, "Buf Display", b, o.to_string().as_bytes());
                same($ctx, $name, "Buf Debug", format!("{:?}", s).as_bytes(), format!("{:?}", o).as_bytes());
                same($ctx, $name, "Clone", b, o.clone().as_bytes());
                // the rarely called siblings: clone_from / clone_into overwrite an existing buffer
                {
                    let mut tgt = o.clone();
                    tgt.clone_from(&o);
                    same($ctx, $name, "Clone::clone_from", b, tgt.as_bytes());
                    let mut tgt2 = o.clone();
                    std::borrow::ToOwned::clone_into(v, &mut tgt2);
                    same($ctx, $name, "ToOwned::clone_into", b, tgt2.as_bytes());
                    let bv: &$T = std::borrow::Borrow::borrow(&o);
                    same($ctx, $name, "Borrow", b, bv.as_bytes());
                    let dv: &$T = &*o;
                    same($ctx, $name, "Deref", b, dv.as_bytes());
                }
                same($ctx, $name, "into_string", b, o.clone().into_string().as_bytes());
                same($ctx, $name, "into_bytes", b, &o.clone().into_bytes());
                same($ctx, $name, "String::from(Buf)", b, String::from(o.clone()).as_bytes());
                same($ctx, $name, "Buf AsRef<str>", b, AsRef::<str>::as_ref(&o).as_bytes());
                match guard(|| (serde_json::to_string(v).ok(), serde_json::to_string(&o).ok())) {
                    Ok((j1, j2)) => {
                        let wantj = serde_json::to_string(s).unwrap();
                        same($ctx, $name, "serde_json::to_string", wantj.as_bytes(), j1.unwrap_or_default().as_bytes());
                        same($ctx, $name, "serde_json::to_string (owned)", wantj.as_bytes(), j2.unwrap_or_default().as_bytes());
                    }
                    Err(m) => $ctx.fail("C14.panic", feats($name, "serde_json::to_string"), format!("panicked: {}", m)),
                }
                str_type!(@eq $ctx, $name, v, o, s, $eqk);
            }
            Err(_) => { $ctx.stratum(concat!("in-reject:", $name)); }
        }
        verdict($ctx, $name, "FromStr", b, want, <$TBuf>::from_str(s).is_ok());
        verdict($ctx, $name, "TryFrom<&str>", b, want, <&$T>::try_from(s).is_ok());
        verdict($ctx, $name, "TryFrom<String>", b, want, <$TBuf>::try_from(s.to_string()).is_ok());
        if let Ok(o) = <$TBuf>::from_str(s) { same($ctx, $name, "FromStr", b, o.as_bytes()); }
        serde_routes!($ctx, $name, $T, $TBuf, s, want);
        $ctx.nontrivial(crate::rng::hash_bytes(format!("{}|{}", $name, s).as_bytes()));
    }};
    (@eq $ctx:expr, $name:literal, $v:expr, $o:expr, $s:expr, 0) => {};
    (@eq $ctx:expr, $name:literal, $v:expr, $o:expr, $s:expr, 1) => {{
        let other = format!("{}x", $s);
        let flipped: String = $s.chars().map(|c| if c.is_ascii_lowercase() { c.to_ascii_uppercase() } else { c.to_ascii_lowercase() }).collect();
        $ctx.call("== &str");
        let shorter: String = { let mut t = $s.to_string(); t.pop(); t };
        if !(*$v == $s) || *$v == other.as_str() || (flipped != $s && *$v == flipped.as_str()) || (shorter != $s && *$v == shorter.as_str()) {
            $ctx.fail("C14.eq-str", feats($name, "== &str"), format!("{}: comparison of {} with a string is not plain text equality", $name, show($s.as_bytes())));
        }
        for d in decorated($s) {
            if *$v == d.as_str() {
                $ctx.fail("C14.eq-str", feats($name, "== &str (decorated)"), format!("{}: {} compares equal to the different text {}", $name, show($s.as_bytes()), show(d.as_bytes())));
            }
        }
    }};
    (@eq $ctx:expr, $name:literal, $v:expr, $o:expr, $s:expr, 2) => {{
        let other = format!("{}x", $s);
        $ctx.call("== str/&str/String");
        let ok = *$v == *$s && *$v == $s && *$v == $s.to_string() && $o == *$s && $o == $s && $o == $s.to_string();
        let flipped: String = $s.chars().map(|c| if c.is_ascii_lowercase() { c.to_ascii_uppercase() } else { c.to_ascii_lowercase() }).collect();
        let bad = (flipped != $s && (*$v == *flipped.as_str() || *$v == flipped.as_str() || *$v == flipped.clone() || $o == flipped.as_str())) || *$v == *other.as_str() || *$v == other.as_str() || *$v == other.clone() || $o == *other.as_str() || $o == other.as_str() || $o == other.clone();
        if !ok || bad {
            $ctx.fail("C14.eq-str", feats($name, "== str/&str/String"), format!("{}: comparison of {} with a string is not plain text equality", $name, show($s.as_bytes())));
        }
        for d in decorated($s) {
            if *$v == *d.as_str() || *$v == d.as_str() || *$v == d.clone() || $o == *d.as_str() || $o == d.as_str() || $o == d.clone() {
                $ctx.fail("C14.eq-str", feats($name, "== str/&str/String (decorated)"), format!("{}: {} compares equal to the different text {}", $name, show($s.as_bytes()), show(d.as_bytes())));
            }
        }
    }};
}

/// Texts that differ from `s` by one delimiter-like decoration: the delimiter that introduces or
/// ends the component in a reference put in front / behind, the first character removed, the
/// surrounding brackets / quotes a tolerant comparison might strip.  None may compare equal to `s`.
pub fn decorated(s: &str) -> Vec<String> {
    let mut v = Vec::new();
    for d in ["#", "?", "/", ":", "@", "//", ".", "./", "%", " ", "\"", "<", "[", "\u{feff}"] {
        v.push(format!("{}{}", d, s));
        v.push(format!("{}{}", s, d));
    }
    v.push(format!("<{}>", s));
    v.push(format!("\"{}\"", s));
    let mut cs = s.chars();
    if cs.next().is_some() {
        v.push(cs.as_str().to_string());
    }
    v.retain(|x| x != s);
    v
}

macro_rules! bytes_type {
    ($ctx:expr, $s:expr, $name:literal, $T:ty, $TBuf:ty, $prod:expr, $eqk:tt) => {{
        let s: &str = $s;
        let b = s.as_bytes();
        let want = s.is_ascii() && abnf::accepts($prod, &abnf::codepoints(s), false);
        match <$T>::new(b) {
            Ok(v) => {
                $ctx.stratum(concat!("out:", $name));
                same($ctx, $name, "Display", b, v.to_string().as_bytes());
                same($ctx, $name, "Debug", format!("{:?}", s).as_bytes(), format!("{:?}", v).as_bytes());
                same($ctx, $name, "as_str", b, v.as_str().as_bytes());
                same($ctx, $name, "as_bytes", b, v.as_bytes());
                same($ctx, $name, "Deref", b, (&**v).as_bytes());
                same($ctx, $name, "AsRef<str>", b, AsRef::<str>::as_ref(v).as_bytes());
                same($ctx, $name, "AsRef<[u8]>", b, AsRef::<[u8]>::as_ref(v));
                same($ctx, $name, "<&str>::from", b, <&str>::from(v).as_bytes());
                same($ctx, $name, "<&[u8]>::from", b, <&[u8]>::from(v));
                let o = v.to_owned();
                same($ctx, $name, "to_owned", b, o.as_bytes());
                same($ctx, $name, "Buf Display", b, o.to_string().as_bytes());
                same($ctx, $name, "Buf Debug", format!("{:?}", s).as_bytes(), format!("{:?}", o).as_bytes());
                same($ctx, $name, "Clone", b, o.clone().as_bytes());
                // the rarely called siblings: clone_from / clone_into overwrite an existing buffer
                {
                    let mut tgt = o.clone();
                    tgt.clone_from(&o);
                    same($ctx, $name, "Clone::clone_from", b, tgt.as_bytes());
                    let mut tgt2 = o.clone();
                    std::borrow::ToOwned::clone_into(v, &mut tgt2);
                    same($ctx, $name, "ToOwned::clone_into", b, tgt2.as_bytes());
                    let bv: &$T = std::borrow::Borrow::borrow(&o);
                    same($ctx, $name, "Borrow", b, bv.as_bytes());
                    let dv: &$T = &*o;
                    same($ctx, $name, "Deref", b, dv.as_bytes());
                }
                same($ctx, $name, "into_string", b, o.clone().into_string().as_bytes());
                same($ctx, $name, "into_bytes", b, &o.clone().into_bytes());
                same($ctx, $name, "String::from(Buf)", b, String::from(o.clone()).as_bytes());
                same($ctx, $name, "Vec::from(Buf)", b, &Vec::<u8>::from(o.clone()));
                match guard(|| (serde_json::to_string(v).ok(), serde_json::to_string(&o).ok())) {
                    Ok((j1, j2)) => {
                        let wantj = serde_json::to_string(s).unwrap();
                        same($ctx, $name, "serde_json::to_string", wantj.as_bytes(), j1.unwrap_or_default().as_bytes());
                        same($ctx, $name, "serde_json::to_string (owned)", wantj.as_bytes(), j2.unwrap_or_default().as_bytes());
                    }
                    Err(m) => $ctx.fail("C14.panic", feats($name, "serde_json::to_string"), format!("panicked: {}", m)),
                }
                bytes_type!(@eq $ctx, $name, v, o, s, $eqk);
            }
            Err(_) => { $ctx.stratum(concat!("in-reject:", $name)); }
        }
        verdict($ctx, $name, "FromStr", b, want, <$TBuf>::from_str(s).is_ok());
        verdict($ctx, $name, "TryFrom<&str>", b, want, <&$T>::try_from(s).is_ok());
        verdict($ctx, $name, "TryFrom<&[u8]>", b, want, <&$T>::try_from(b).is_ok());
        verdict($ctx, $name, "TryFrom<String>", b, want, <$TBuf>::try_from(s.to_string()).is_ok());
        verdict($ctx, $name, "TryFrom<Vec<u8>>", b, want, <$TBuf>::try_from(b.to_vec()).is_ok());
        if let Ok(o) = <$TBuf>::from_str(s) { same($ctx, $name, "FromStr", b, o.as_bytes()); }
        serde_routes!($ctx, $name, $T, $TBuf, s, want);
        $ctx.nontrivial(crate::rng::hash_bytes(format!("{}|{}", $name, s).as_bytes()));
    }};
    (@eq $ctx:expr, $name:literal, $v:expr, $o:expr, $s:expr, 0) => {};
    (@eq $ctx:expr, $name:literal, $v:expr, $o:expr, $s:expr, 1) => {{
        let other = format!("{}x", $s);
        let flipped: String = $s.chars().map(|c| if c.is_ascii_lowercase() { c.to_ascii_uppercase() } else { c.to_ascii_lowercase() }).collect();
        $ctx.call("== &str");
        let shorter: String = { let mut t = $s.to_string(); t.pop(); t };
        if !(*$v == $s) || *$v == other.as_str() || (flipped != $s && *$v == flipped.as_str()) || (shorter != $s && *$v == shorter.as_str()) {
            $ctx.fail("C14.eq-str", feats($name, "== &str"), format!("{}: comparison of {} with a string is not plain text equality", $name, show($s.as_bytes())));
        }
        for d in decorated($s) {
            if *$v == d.as_str() {
                $ctx.fail("C14.eq-str", feats($name, "== &str (decorated)"), format!("{}: {} compares equal to the different text {}", $name, show($s.as_bytes()), show(d.as_bytes())));
            }
        }
    }};
    (@eq $ctx:expr, $name:literal, $v:expr, $o:expr, $s:expr, 2) => {{
        let other = format!("{}x", $s);
        $ctx.call("== str/&str/String/[u8]");
        let ok = *$v == *$s && *$v == $s && *$v == $s.to_string() && *$v == *$s.as_bytes() && *$v == $s.as_bytes() && $o == *$s && $o == $s && $o == $s.to_string() && $o == *$s.as_bytes();
        let flipped: String = $s.chars().map(|c| if c.is_ascii_lowercase() { c.to_ascii_uppercase() } else { c.to_ascii_lowercase() }).collect();
        let bad = (flipped != $s && (*$v == *flipped.as_str() || *$v == flipped.as_str() || *$v == flipped.clone() || $o == flipped.as_str())) || *$v == *other.as_str() || *$v == other.as_str() || *$v == other.clone() || *$v == *other.as_bytes() || $o == *other.as_str() || $o == other.clone();
        let shorter: String = { let mut t = $s.to_string(); t.pop(); t };
        let bad = bad || (shorter != $s && (*$v == *shorter.as_str() || *$v == shorter.as_str() || *$v == shorter.clone() || *$v == *shorter.as_bytes() || *$v == shorter.as_bytes() || $o == *shorter.as_str() || $o == shorter.clone() || $o == *shorter.as_bytes()));
        if !ok || bad {
            $ctx.fail("C14.eq-str", feats($name, "== str/&str/String/[u8]"), format!("{}: comparison of {} with a string is not plain text equality", $name, show($s.as_bytes())));
        }
        for d in decorated($s) {
            if *$v == *d.as_str() || *$v == d.as_str() || *$v == d.clone() || *$v == *d.as_bytes() || *$v == d.as_bytes() || $o == *d.as_str() || $o == d.clone() || $o == *d.as_bytes() {
                $ctx.fail("C14.eq-str", feats($name, "== str/&str/String/[u8] (decorated)"), format!("{}: {} compares equal to the different text {}", $name, show($s.as_bytes()), show(d.as_bytes())));
            }
        }
        // fixed-size byte arrays
        macro_rules! arr { ($n:literal) => {
            if let Ok(a) = <[u8; $n]>::try_from($s.as_bytes()) {
                $ctx.call("== [u8; N]");
                #[allow(unused_mut)]
                let mut d = a;
                if $n > 0 { d[$n - 1] ^= 0x20; }
                if !(*$v == a) || !(*$v == &a) || !($o == a) || ($n > 0 && (*$v == d || *$v == &d || $o == d)) {
                    $ctx.fail("C14.eq-str", feats($name, "== [u8; N]"), format!("{}: comparison of {} with a byte array is not plain text equality", $name, show($s.as_bytes())));
                }
            }
        } }
        // arrays that are a strict prefix of the text, and arrays the text is a strict prefix of
        macro_rules! arr_other_len { ($n:literal) => {
            let bytes = $s.as_bytes();
            if bytes.len() > $n {
                let a = <[u8; $n]>::try_from(&bytes[..$n]).unwrap();
                $ctx.call("== [u8; N]");
                if *$v == a || *$v == &a || $o == a {
                    $ctx.fail("C14.eq-str", feats($name, "== [u8; N]"), format!("{}: {} compares equal to the byte array of its first {} bytes", $name, show(bytes), $n));
                }
            } else if bytes.len() < $n {
                let mut a = [b'a'; $n];
                a[..bytes.len()].copy_from_slice(bytes);
                $ctx.call("== [u8; N]");
                if *$v == a || *$v == &a || $o == a {
                    $ctx.fail("C14.eq-str", feats($name, "== [u8; N]"), format!("{}: {} compares equal to a longer byte array that starts with it", $name, show(bytes)));
                }
            }
        } }
        arr_other_len!(0); arr_other_len!(1); arr_other_len!(2); arr_other_len!(3); arr_other_len!(5); arr_other_len!(8); arr_other_len!(13); arr_other_len!(32);
        arr!(0); arr!(1); arr!(2); arr!(3); arr!(4); arr!(5); arr!(6); arr!(7); arr!(8); arr!(12); arr!(16);
    }};
}

fn check(ctx: &mut Ctx, s: &str, other_spelling: Option<&str>) {
    ctx.evals += 19; // twenty (type, input) evaluations per case; run() counted one
    str_type!(ctx, s, "Iri", iref::Iri, iref::IriBuf, Prod::Ri, 2);
    str_type!(ctx, s, "IriRef", iref::IriRef, iref::IriRefBuf, Prod::RiRef, 2);
    str_type!(ctx, s, "iri::Authority", iri::Authority, iri::AuthorityBuf, Prod::Authority, 1);
    str_type!(ctx, s, "iri::UserInfo", iri::UserInfo, iri::UserInfoBuf, Prod::UserInfo, 1);
    str_type!(ctx, s, "iri::Host", iri::Host, iri::HostBuf, Prod::Host, 1);
    str_type!(ctx, s, "iri::Path", iri::Path, iri::PathBuf, Prod::Path, 1);
    str_type!(ctx, s, "iri::Segment", iri::Segment, iri::SegmentBuf, Prod::Segment, 0);
    str_type!(ctx, s, "iri::Query", iri::Query, iri::QueryBuf, Prod::Query, 1);
    str_type!(ctx, s, "iri::Fragment", iri::Fragment, iri::FragmentBuf, Prod::Fragment, 1);
    bytes_type!(ctx, s, "Uri", iref::Uri, iref::UriBuf, Prod::Ri, 2);
    bytes_type!(ctx, s, "UriRef", iref::UriRef, iref::UriRefBuf, Prod::RiRef, 2);
    bytes_type!(ctx, s, "uri::Authority", uri::Authority, uri::AuthorityBuf, Prod::Authority, 1);
    bytes_type!(ctx, s, "uri::UserInfo", uri::UserInfo, uri::UserInfoBuf, Prod::UserInfo, 1);
    bytes_type!(ctx, s, "uri::Host", uri::Host, uri::HostBuf, Prod::Host, 1);
    bytes_type!(ctx, s, "uri::Path", uri::Path, uri::PathBuf, Prod::Path, 1);
    bytes_type!(ctx, s, "uri::Segment", uri::Segment, uri::SegmentBuf, Prod::Segment, 0);
    bytes_type!(ctx, s, "uri::Query", uri::Query, uri::QueryBuf, Prod::Query, 1);
    bytes_type!(ctx, s, "uri::Fragment", uri::Fragment, uri::FragmentBuf, Prod::Fragment, 1);
    bytes_type!(ctx, s, "Scheme", uri::Scheme, uri::SchemeBuf, Prod::Scheme, 0);
    bytes_type!(ctx, s, "Port", uri::Port, uri::PortBuf, Prod::Port, 0);
    // conversion to an owned percent-encoded string: same text, for every valid value
    macro_rules! pct_route {
        ($name:literal, $TBuf:ty) => {
            if let Ok(o) = <$TBuf>::new(s.to_string().into()) {
                ctx.call("into_pct_string");
                match guard(|| { let p = o.clone().into_pct_string(); (p.as_str().to_string(), o.as_pct_str().as_str().to_string()) }) {
                    Ok((owned, borrowed)) => {
                        same(ctx, $name, "into_pct_string", s.as_bytes(), owned.as_bytes());
                        same(ctx, $name, "as_pct_str", s.as_bytes(), borrowed.as_bytes());
                    }
                    Err(m) => ctx.fail("C14.panic", feats($name, "into_pct_string"), format!("into_pct_string()/as_pct_str() of {} panicked: {}", show(s.as_bytes()), m)),
                }
            }
        };
    }
    pct_route!("iri::UserInfo", iri::UserInfoBuf);
    pct_route!("iri::Host", iri::HostBuf);
    pct_route!("iri::Query", iri::QueryBuf);
    pct_route!("iri::Fragment", iri::FragmentBuf);
    pct_route!("uri::UserInfo", uri::UserInfoBuf);
    pct_route!("uri::Host", uri::HostBuf);
    pct_route!("uri::Query", uri::QueryBuf);
    pct_route!("uri::Fragment", uri::FragmentBuf);
    // paths have every plain-text operand form (str, &str, String; the URI family also byte forms), on the
    // borrowed and on the owned type: each against the text itself, against equivalent respellings (must be
    // UNEQUAL as text) and against near misses
    {
        let mut others: Vec<String> = vec![format!("{}x", s), if s.starts_with('/') { format!("/.{}", s) } else { format!("./{}", s) }, format!("{}/.", s), format!("{}/x/..", s)];
        if let Some(i) = s.find(|c: char| c.is_ascii_alphabetic()) {
            others.push(format!("{}%{:02X}{}", &s[..i], s.as_bytes()[i], &s[i + 1..]));
        }
        if let Some(i) = s.find('%') {
            if s.len() >= i + 3 && s.is_char_boundary(i + 3) {
                let hex = &s[i + 1..i + 3];
                let sw: String = hex.chars().map(|c| if c.is_ascii_lowercase() { c.to_ascii_uppercase() } else { c.to_ascii_lowercase() }).collect();
                if sw != hex { others.push(format!("{}%{}{}", &s[..i], sw, &s[i + 3..])); }
            }
        }
        macro_rules! path_probe {
            ($name:literal, $v:expr, $bytes:tt) => {{
                let v = $v;
                ctx.call("== str/&str/String (path)");
                let owned_s = s.to_string();
                if !(*v == *s) || !(*v == s) || !(*v == owned_s) {
                    ctx.fail("C14.eq-str", feats($name, "== str/&str/String (path)"), format!("{}: {} does not compare equal to its own text", $name, show(s.as_bytes())));
                }
                for o in &others {
                    if o == s { continue; }
                    if *v == *o.as_str() || *v == o.as_str() || *v == o.clone() {
                        ctx.fail("C14.eq-str", feats($name, "== str/&str/String (path)"), format!("{}: {} compares equal to the different text {}", $name, show(s.as_bytes()), show(o.as_bytes())));
                    }
                    path_probe!(@bytes $bytes, $name, v, o);
                }
            }};
            (@bytes yes, $name:literal, $v:expr, $o:expr) => {
                if *$v == *$o.as_bytes() || *$v == $o.as_bytes() || !(*$v == *s.as_bytes()) || !(*$v == s.as_bytes()) {
                    ctx.fail("C14.eq-str", feats($name, "== [u8]/&[u8] (path)"), format!("{}: byte comparison of {} is not plain text equality (other text {})", $name, show(s.as_bytes()), show($o.as_bytes())));
                }
            };
            (@bytes no, $name:literal, $v:expr, $o:expr) => {};
        }
        // the four main kinds, borrowed and owned, against the same respellings
        macro_rules! main_probe {
            ($name:literal, $T:ty, $input:expr) => {
                if let Ok(v) = <$T>::new($input) {
                    let vo = v.to_owned();
                    ctx.call("== str/&str/String (respelled)");
                    for o in &others {
                        if o == s { continue; }
                        if *v == *o.as_str() || *v == o.as_str() || *v == o.clone() || vo == *o.as_str() || vo == o.as_str() || vo == o.clone() {
                            ctx.fail("C14.eq-str", feats($name, "== str/&str/String (respelled)"), format!("{}: {} compares equal to the different text {}", $name, show(s.as_bytes()), show(o.as_bytes())));
                        }
                    }
                }
            };
        }
        main_probe!("Iri", iref::Iri, s);
        main_probe!("IriRef", iref::IriRef, s);
        main_probe!("Uri", iref::Uri, s.as_bytes());
        main_probe!("UriRef", iref::UriRef, s.as_bytes());
        if let Ok(v) = iri::Path::new(s) { path_probe!("iri::Path", v, no); }
        if let Ok(v) = iri::PathBuf::new(s.to_string()) { path_probe!("iri::PathBuf", &v, no); }
        if let Ok(v) = uri::Path::new(s.as_bytes()) { path_probe!("uri::Path", v, yes); }
    }
    // a value that borrows a PREFIX (or a suffix) of a longer text, compared with that text itself
    // (same start or end address, different length)
    {
        let bounds: Vec<usize> = s.char_indices().map(|(i, _)| i).collect();
        let step = (bounds.len() / 12).max(1);
        for (j, k) in bounds.iter().enumerate() {
            if *k == 0 || (j % step != 0 && j + 2 < bounds.len()) { continue; }
            let (pre, suf) = (&s[..*k], &s[*k..]);
            ctx.call("== str (aliasing)");
            if let Ok(v) = iref::IriRef::new(pre) {
                if *v == *s || *v == s || !(*v == *pre) || v.to_owned() == *s {
                    ctx.fail("C14.eq-str", feats("IriRef", "== str (aliasing)"), format!("IriRef parsed from the first {} bytes of {} : comparison with the whole text / with its own text is not plain text equality", k, show(s.as_bytes())));
                }
            }
            if let Ok(v) = iref::UriRef::new(pre) {
                if *v == *s || *v == s || *v == *s.as_bytes() || *v == s.as_bytes() || !(*v == *pre) || !(*v == *pre.as_bytes()) {
                    ctx.fail("C14.eq-str", feats("UriRef", "== str (aliasing)"), format!("UriRef parsed from the first {} bytes of {} : comparison with the whole text / with its own text is not plain text equality", k, show(s.as_bytes())));
                }
            }
            if let Ok(v) = iref::IriRef::new(suf) {
                if !suf.is_empty() && (*v == *s || !(*v == *suf)) {
                    ctx.fail("C14.eq-str", feats("IriRef", "== str (aliasing)"), format!("IriRef parsed from the bytes {}.. of {} : comparison with the whole text / with its own text is not plain text equality", k, show(s.as_bytes())));
                }
            }
            if let Ok(v) = iref::UriRef::new(suf) {
                if !suf.is_empty() && (*v == *s || *v == *s.as_bytes() || !(*v == *suf)) {
                    ctx.fail("C14.eq-str", feats("UriRef", "== str (aliasing)"), format!("UriRef parsed from the bytes {}.. of {} : comparison with the whole text / with its own text is not plain text equality", k, show(s.as_bytes())));
                }
            }
            if let Ok(v) = iref::Iri::new(pre) {
                if *v == *s || !(*v == *pre) {
                    ctx.fail("C14.eq-str", feats("Iri", "== str (aliasing)"), format!("Iri parsed from the first {} bytes of {} : comparison with the whole text / with its own text is not plain text equality", k, show(s.as_bytes())));
                }
            }
            if let Ok(v) = iref::Uri::new(pre) {
                if *v == *s || *v == *s.as_bytes() || !(*v == *pre) {
                    ctx.fail("C14.eq-str", feats("Uri", "== str (aliasing)"), format!("Uri parsed from the first {} bytes of {} : comparison with the whole text / with its own text is not plain text equality", k, show(s.as_bytes())));
                }
            }
            if let Ok(v) = iri::Path::new(pre) {
                if *v == s || !(*v == pre) {
                    ctx.fail("C14.eq-str", feats("iri::Path", "== str (aliasing)"), format!("iri::Path parsed from the first {} bytes of {} : comparison with the whole text / with its own text is not plain text equality", k, show(s.as_bytes())));
                }
            }
        }
    }
    // an M-eq-equal but textually different value must compare UNEQUAL to the string
    if let Some(o) = other_spelling {
        if o != s {
            if let (Ok(v), Ok(w)) = (iref::IriRef::new(s), iref::IriRef::new(o)) {
                ctx.call("== str (respelled)");
                if *v == *o || *w == *s || v.to_owned() == *o {
                    ctx.fail("C14.eq-str", feats("IriRef", "== str (respelled)"), format!("{} compares equal to the string {}", show(s.as_bytes()), show(o.as_bytes())));
                }
                if v == w {
                    ctx.stratum("respelled-values-equal");
                }
            }
            if let (Ok(v), Ok(_w)) = (iref::UriRef::new(s), iref::UriRef::new(o)) {
                if *v == *o || *v == *o.as_bytes() {
                    ctx.fail("C14.eq-str", feats("UriRef", "== str (respelled)"), format!("{} compares equal to the string {}", show(s.as_bytes()), show(o.as_bytes())));
                }
            }
        }
    }
}

pub fn exec(ctx: &mut Ctx, case: &Case) {
    match case.mon.as_str() {
        "text" => {
            let Ok(s) = std::str::from_utf8(case.s(0)) else { return };
            let o = case.a.get(1).and_then(|x| std::str::from_utf8(x).ok());
            check(ctx, s, o);
        }
        "bytes" => {
            // ill-formed UTF-8 through the from-bytes routes
            let b = case.s(0);
            let r = guard(|| (iref::IriBuf::from_vec(b.to_vec()).is_ok(), iref::IriRefBuf::from_vec(b.to_vec()).is_ok()));
            let wi = abnf::accepts_bytes(Prod::Ri, b, true);
            let wr = abnf::accepts_bytes(Prod::RiRef, b, true);
            match r {
                Ok((a, c)) => {
                    verdict(ctx, "IriBuf", "from_vec", b, wi, a);
                    verdict(ctx, "IriRefBuf", "from_vec", b, wr, c);
                    if let Ok(v) = iref::IriRefBuf::from_vec(b.to_vec()) { same(ctx, "IriRefBuf", "from_vec", b, v.as_bytes()); }
                    if let Ok(v) = iref::IriBuf::from_vec(b.to_vec()) { same(ctx, "IriBuf", "from_vec", b, v.as_bytes()); }
                    if let Err(e) = iref::IriRefBuf::from_vec(b.to_vec()) { same(ctx, "IriRefBuf", "from_vec (error payload)", b, &e.0); }
                    if let Err(e) = iref::IriBuf::from_vec(b.to_vec()) { same(ctx, "IriBuf", "from_vec (error payload)", b, &e.0); }
                }
                Err(m) => ctx.fail("C14.panic", feats("IriBuf", "from_vec"), format!("panicked: {}", m)),
            }
        }
        "non-string" => {
            non_string_json!(ctx, "Iri", iref::Iri, iref::IriBuf);
            non_string_json!(ctx, "IriRef", iref::IriRef, iref::IriRefBuf);
            non_string_json!(ctx, "Uri", iref::Uri, iref::UriBuf);
            non_string_json!(ctx, "UriRef", iref::UriRef, iref::UriRefBuf);
            non_string_json!(ctx, "iri::Path", iri::Path, iri::PathBuf);
            non_string_json!(ctx, "uri::Host", uri::Host, uri::HostBuf);
            non_string_json!(ctx, "Scheme", uri::Scheme, uri::SchemeBuf);
            non_string_json!(ctx, "Port", uri::Port, uri::PortBuf);
            non_string_json!(ctx, "iri::Segment", iri::Segment, iri::SegmentBuf);
            non_string_json!(ctx, "uri::Query", uri::Query, uri::QueryBuf);
        }
        _ => ctx.fail("C14.harness", vec![], format!("unknown sub-monitor {}", case.mon)),
    }
}

pub fn generate(ctx: &mut Ctx) {
    let mut bi = 0u64;
    if ctx.mine(bi) {
        ctx.run(Case::new("non-string"));
    }
    bi += 1;
    for s in ["", "a", "s:", "s://h/p?q#f", "\u{e9}", "s:\u{e9}", "a:b", "80", "http", "[::1]", "u:p", "/a/b", "%41", "%", "\"", "\\", "a\nb", "\u{1f600}", "s:/\u{1f600}", "\u{0}", "s:\u{7f}"] {
        if ctx.mine(bi) {
            ctx.run(Case::new("text").arg(s));
        }
        bi += 1;
    }
    for s in ["\u{feff}http://example.org/a", "\u{feff}a/b", "\u{feff}", "s:\u{feff}", "a\u{3000}b", "s://h/\u{a0}?\u{2028}#\u{200b}"] {
        if ctx.mine(bi) {
            ctx.run(Case::new("text").arg(s));
            ctx.run(Case::new("bytes").arg(s));
        }
        bi += 1;
    }
    for ill in gen::ILL_FORMED {
        if ctx.mine(bi) {
            let mut v = b"s://h/".to_vec();
            v.extend_from_slice(ill);
            ctx.run(Case::new("bytes").arg(&v));
            ctx.run(Case::new("bytes").arg(ill));
        }
        bi += 1;
    }
    let n = ctx.by_tier(24_000u64, 1_200_000u64) / ctx.nshards;
    for i in 0..n {
        let mut rng = ctx.rng("text", i);
        let mut o = gen::Opts::new(rng.chance(1, 2));
        o.bad_pct = rng.chance(1, 4);
        o.max_segs = 8;
        let hs = rng.chance(1, 2);
        let ha = rng.chance(1, 2);
        let p = gen::parts_with(&mut rng, o, hs, ha);
        let s = match rng.below(8) {
            0 => gen::authority(&mut rng, o),
            1 => gen::path(&mut rng, o),
            2 => gen::host(&mut rng, o),
            3 => gen::segment(&mut rng, o, false, false),
            4 => gen::scheme(&mut rng),
            5 => gen::port(&mut rng),
            _ => p.render(),
        };
        let respelled = gen::respell_parts(&mut rng, &p).render();
        ctx.run(Case::new("text").arg(&s).arg(&respelled));
        let other = gen::reference(&mut rng, o);
        let m = gen::mutate(&mut rng, &s, &other);
        match std::str::from_utf8(&m) {
            Ok(ms) => ctx.run(Case::new("text").arg(ms)),
            Err(_) => ctx.run(Case::new("bytes").arg(&m)),
        }
    }
}
