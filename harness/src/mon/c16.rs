//! C16 - suffix and base extraction are consistent with path prefixes.

use crate::abnf::Prod;
use crate::ctx::{Case, Ctx};
use crate::{both_families, fam, gen};

pub const RULE: &str = "cases: (value, prefix) pairs built by cutting a value's path at every segment index (so that the prefix's normalized sequence leads the value's), then perturbing one segment / the absoluteness / the scheme / the authority / re-spelling with percent-encoding and dot segments, for stand-alone paths, references and full URIs/IRIs incl. escapes that are not UTF-8; base() on every generated reference. suffix is compared with a model on normalized segment sequences (existence, remaining segments modulo shield, prefix++suffix == value, accompanying query/fragment pointer-identical), base with the text up to the last '/' of the Appendix-B path. Non-trivial = every pair / reference; distinct by case";

pub const MANDATORY: &[&str] = &["suffix:some", "suffix:none", "suffix:head-differs", "base:path-with-slash", "base:path-without-slash"];

pub fn exec(ctx: &mut Ctx, case: &Case) {
    let s = |i: usize| std::str::from_utf8(case.s(i)).unwrap_or("");
    match case.mon.as_str() {
        "path" => {
            let (a, b) = (s(0), s(1));
            let (ia, ua) = fam::valid_in(Prod::Path, a);
            let (ib, ub) = fam::valid_in(Prod::Path, b);
            if ia && ib {
                fam::irifam::c16_path(ctx, a, b);
            }
            if ua && ub {
                fam::urifam::c16_path(ctx, a, b);
            }
        }
        "ref" => {
            let (a, b) = (s(0), s(1));
            let (ia, ua) = fam::valid_in(Prod::RiRef, a);
            let (ib, ub) = fam::valid_in(Prod::RiRef, b);
            if ia && ib {
                fam::irifam::c16_ref(ctx, a, b);
            }
            if ua && ub {
                fam::urifam::c16_ref(ctx, a, b);
            }
        }
        "base" => {
            both_families!(ctx, Prod::RiRef, s(0), c16_base);
        }
        _ => ctx.fail("C16.harness", vec![], format!("unknown sub-monitor {}", case.mon)),
    }
}

pub fn generate(ctx: &mut Ctx) {
    let mut bi = 0u64;
    let fixed: &[(&str, &str)] = &[
        ("/foo/bar/baz", "/foo/bar"), ("/foo/bar", "/foo/bar"), ("/foo", "/foo/bar"), ("foo/bar", "/foo"), ("/a/b/../c", "/a/c"), ("/a/./b", "/a"), ("", ""),
        ("/", "/"), ("a", ""), ("/a", "/"), ("//a", "/"), ("//a", "//"), ("/a//b", "/a"), ("/a//b", "/a/"), ("/a/b", "/a/"), ("/%61/b", "/a"), ("/a/b:c", "/a"),
        ("/%FF/x", "/%ff"), ("/%FF/x", "/%FE"), ("../a", ".."), ("../a", ""), ("a/../..", ".."), ("/a/..", "/"), ("/a/b/", "/a/b"),
    ];
    for (a, b) in fixed {
        if ctx.mine(bi) {
            ctx.run(Case::new("path").arg(a).arg(b));
            for (pre, suf) in [("s:", ""), ("s://h", "?q#f"), ("", "#f"), ("//u@h:1", "?q")] {
                ctx.run(Case::new("ref").arg(format!("{}{}{}", pre, a, suf)).arg(format!("{}{}", pre, b)));
            }
            ctx.run(Case::new("ref").arg(format!("s://h{}", a)).arg(format!("s://H{}", b)));
            ctx.run(Case::new("ref").arg(format!("s://%68{}", a)).arg(format!("s://h{}", b)));
            ctx.run(Case::new("ref").arg(format!("s:{}", a)).arg(format!("t:{}", b)));
            ctx.run(Case::new("base").arg(format!("s://h{}?q#f", a)));
            ctx.run(Case::new("base").arg(format!("s:{}", a)));
            ctx.run(Case::new("base").arg(a.to_string()));
        }
        bi += 1;
    }
    for v in ["https://crates.io/crates/iref?query#fragment", "https://crates.io/crates/iref/?query#fragment", "s:", "s:a", "s:a/b", "a", "", "?q", "#f/x", "//h", "//h?a/b", "s://h/a?b/c#d/e", "a:b/c".trim_start_matches("a:"), "./a:b", "/.//a"] {
        if ctx.mine(bi) {
            ctx.run(Case::new("base").arg(v));
        }
        bi += 1;
    }
    let n = ctx.by_tier(200_000u64, 8_000_000u64) / ctx.nshards;
    for i in 0..n {
        let mut rng = ctx.rng("pairs", i);
        let mut o = gen::Opts::new(rng.chance(1, 2));
        o.max_segs = if rng.chance(1, 8) { 30 } else { 8 };
        o.long = rng.chance(1, 10);
        o.bad_pct = rng.chance(1, 5);
        let hs = rng.chance(1, 2);
        let ha = rng.chance(1, 2);
        let p = gen::parts_with(&mut rng, o, hs, ha);
        let value = p.render();
        ctx.run(Case::new("base").arg(&value));
        // prefix: cut the path at a segment boundary
        let abs = p.path.starts_with('/');
        let body = if abs { &p.path[1..] } else { &p.path[..] };
        let segs: Vec<&str> = if body.is_empty() { vec![] } else { body.split('/').collect() };
        let k = rng.below(segs.len() + 1);
        let mut ps: Vec<String> = segs[..k].iter().map(|s| s.to_string()).collect();
        match rng.below(8) {
            0 if !ps.is_empty() => {
                let j = rng.below(ps.len());
                ps[j] = format!("{}x", ps[j]);
            }
            1 => ps.push("zz".into()),
            2 if !ps.is_empty() => {
                let j = rng.below(ps.len());
                ps[j] = gen::respell_component(&mut rng, &ps[j].clone(), true);
            }
            3 => {
                ps.push("q".into());
                ps.push("..".into());
            }
            _ => {}
        }
        let flip_abs = rng.chance(1, 10);
        let pabs = abs != flip_abs;
        let mut ppath = format!("{}{}", if pabs { "/" } else { "" }, ps.join("/"));
        ctx.run(Case::new("path").arg(&p.path).arg(&ppath));
        let mut q = gen::Parts { scheme: p.scheme.clone(), authority: p.authority.clone(), path: String::new(), query: None, fragment: None };
        if q.authority.is_some() && !ppath.is_empty() && !ppath.starts_with('/') {
            ppath.insert(0, '/');
        }
        if q.authority.is_none() && ppath.starts_with("//") {
            ppath = format!("/.{}", ppath);
        }
        q.path = ppath;
        match rng.below(12) {
            0 => q.scheme = Some(match &p.scheme { Some(s) if rng.chance(1, 2) => if s.chars().any(|c| c.is_ascii_lowercase()) { s.to_ascii_uppercase() } else { s.to_ascii_lowercase() }, _ => "zz".to_string() }),
            1 => q.authority = Some("other".into()),
            2 => {
                if let Some(a) = &p.authority {
                    if !a.contains('[') {
                        q.authority = Some(gen::respell_component(&mut rng, a, false).replace("%40", "@"));
                    }
                }
            }
            3 => q.query = Some("pq".into()),
            _ => {}
        }
        if q.authority.is_some() && !q.path.is_empty() && !q.path.starts_with('/') {
            q.path.insert(0, '/');
        }
        ctx.run(Case::new("ref").arg(&value).arg(q.render()));
    }
}
