//! C04 - safe mutation never breaks well-formedness.

use crate::abnf::Prod;
use crate::ctx::{Case, Ctx};
use crate::{fam, gen};

pub const RULE: &str = "cases: histories over one owned value of RiRefBuf / RiBuf / PathBuf of both families obtained by every route (parsed, Default, from_scheme, cloned, converted): exhaustive sequences (length <= 2 quick, <= 3 thorough) over an alphabet of ~47 (operation x argument-class) letters - the five setters incl. removal, authority handle edits, push/pop/clear/symbolic_push/symbolic_append/normalize, in-place resolve - from ~30 initial buffers, plus random histories of length 1-24 with arguments that need disambiguation. After EACH call: std::str::from_utf8 on the bytes, RFC model validity for the same type, the library's checked constructor, then every read accessor of C02/C03/C12 plus tripwire consumers (chars().count(), to_string(), Debug, Hash) under catch_unwind. Non-trivial = every history with at least one applied call; distinct by (buffer kind, route, initial, history)";

pub const MANDATORY: &[&str] = &[
    "buffer:RiRefBuf", "buffer:RiBuf", "buffer:PathBuf", "route:parsed", "route:default", "route:from_scheme", "route:cloned", "route:converted-from-full",
    "route:converted-from-reference", "route:parsed-spare-capacity", "op:set_scheme", "op:set_authority", "op:set_path", "op:set_query", "op:set_fragment", "op:set_userinfo", "op:set_host",
    "op:set_port", "op:push", "op:pop", "op:clear", "op:symbolic_push", "op:symbolic_append", "op:normalize", "op:resolve", "history-len:1", "history-len:2", "handle:shared-by-run",
];

const OPS: &[&str] = &[
    "scheme-", "scheme:t", "auth-", "auth:h", "auth:", "auth:u@[::1]:8", "path:", "path:/", "path:x", "path://x", "path:a:b", "path::x", "path:../x", "query-",
    "query:q", "query:", "frag-", "frag:f", "frag:", "ui:u", "ui-", "ui:\u{e9}", "host:", "host:h2", "host:[v1.a]", "host:\u{e9}", "port:80", "port:", "port-",
    "push:a", "push:", "push:a:b", "push:..", "push:\u{e9}", "pop", "clear", "spush:..", "spush:.", "spush:", "spush:a", "sappend:../x", "sappend:a/./b/",
    "sappend://x", "norm", "resolve:s://h/a/b?q", "resolve:s:a/b", "resolve:t:/x/.",
];
const INITS: &[&str] = &[
    "", "/", "a", "a/b", "/a/b", "./a:b", "/.//a", "..", "?q", "#f", "a?q#f", "//h", "//h/", "//h/a/b", "//u@h:1/a?q#f", "//", "///", "//[::1]:8/x", "//\u{e9}/\u{e9}",
    "s:", "s:/", "s:a", "s:a:b", "s:/a/b?q#f", "s://h", "s://h/a/../b", "s://u:p@h:80//x//y?q#f", "s:///", "s:?q", "s:/.//a", "s://%FF@%80/%C3?%ff#%FE",
];

pub fn exec(ctx: &mut Ctx, case: &Case) {
    let s = |i: usize| std::str::from_utf8(case.s(i)).unwrap_or("");
    let run = |ctx: &mut Ctx, init: &str, ops: &str, kind: u64, route: u64| {
        let prod = match kind {
            0 => Prod::RiRef,
            1 => Prod::RiRef,
            _ => Prod::Path,
        };
        let (i, u) = fam::valid_in(prod, init);
        if i {
            fam::irifam::c04_history(ctx, init, ops, kind, route);
        }
        if u {
            fam::urifam::c04_history(ctx, init, ops, kind, route);
        }
    };
    match case.mon.as_str() {
        "hist" => run(ctx, s(0), s(1), case.n[0], case.n[1]),
        "exh" => {
            let len = case.n[2] as usize;
            let mut idx = vec![0usize; len];
            loop {
                let h: Vec<&str> = idx.iter().map(|&i| OPS[i]).collect();
                let ht = h.join("\n");
                ctx.evals += 1;
                if ctx.want_sample() {
                    ctx.note_sample(Case::new("hist").arg(s(0)).arg(&ht).num(case.n[0]).num(case.n[1]));
                }
                run(ctx, s(0), &ht, case.n[0], case.n[1]);
                let mut j = 0;
                while j < len {
                    idx[j] += 1;
                    if idx[j] < OPS.len() {
                        break;
                    }
                    idx[j] = 0;
                    j += 1;
                }
                if j >= len {
                    break;
                }
            }
        }
        _ => ctx.fail("C04.harness", vec![], format!("unknown sub-monitor {}", case.mon)),
    }
}

pub fn generate(ctx: &mut Ctx) {
    let mut bi = 0u64;
    let maxlen = if ctx.tiny() { 0 } else { ctx.by_tier(2u64, 3u64) };
    for init in INITS {
        for (kind, route) in [(0u64, 0u64), (0, 1), (0, 2), (0, 3), (0, 4), (1, 0), (1, 1), (1, 2), (2, 0), (2, 1)] {
            // PathBuf histories start from the path of the initial reference
            let init_s: String = if kind == 2 { String::from_utf8_lossy(crate::model::split(init.as_bytes()).path).to_string() } else { init.to_string() };
            // Default / from_scheme ignore most of the initial text: run them from a few initials only
            if route == 1 && !(init.is_empty() || *init == "s:" || *init == "a") {
                continue;
            }
            for len in 1..=maxlen {
                // the cubic level only for the parsed routes
                if len == 3 && route != 0 {
                    continue;
                }
                if ctx.mine(bi) {
                    ctx.run(Case::new("exh").arg(&init_s).num(kind).num(route).num(len));
                }
                bi += 1;
            }
        }
    }
    let n = ctx.random_budget(160, 120_000, 2_500_000);
    for i in 0..n {
        let mut rng = ctx.rng("hist", i);
        let mut o = gen::Opts::new(rng.chance(1, 2));
        o.max_segs = if rng.chance(1, 8) { 30 } else { 8 };
        o.long = !ctx.tiny() && rng.chance(1, 10);
        o.bad_pct = rng.chance(1, 5);
        let kind = rng.pick(&[0u64, 0, 0, 1, 1, 2]);
        let route = rng.below(5) as u64;
        let init = if kind == 2 { gen::path(&mut rng, o) } else if kind == 1 { gen::full(&mut rng, o) } else { gen::reference(&mut rng, o) };
        let mut ops: Vec<String> = Vec::new();
        let maxops = if ctx.tiny() { 8 } else { 24 };
        for _ in 0..rng.range(1, maxops) {
            ops.push(match rng.below(20) {
                0 => format!("scheme:{}", gen::scheme(&mut rng)),
                1 => format!("auth:{}", gen::authority(&mut rng, o)),
                2 | 3 => format!("path:{}", gen::path(&mut rng, o)),
                4 => format!("query:{}", gen::query(&mut rng, o)),
                5 => format!("frag:{}", gen::fragment(&mut rng, o)),
                6 => format!("ui:{}", gen::userinfo(&mut rng, o)),
                7 => format!("host:{}", gen::host(&mut rng, o)),
                8 => format!("port:{}", gen::port(&mut rng)),
                9 | 10 => format!("push:{}", gen::segment(&mut rng, o, false, false)),
                11 => format!("spush:{}", gen::segment(&mut rng, o, false, false)),
                12 => format!("sappend:{}", gen::path(&mut rng, o)),
                13 => format!("resolve:{}", gen::full(&mut rng, o)),
                _ => rng.pick(OPS).to_string(),
            });
        }
        ctx.run(Case::new("hist").arg(&init).arg(ops.join("\n")).num(kind).num(route));
    }
}
