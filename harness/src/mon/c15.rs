//! C15 - relativisation round-trips through resolution.

use crate::abnf::Prod;
use crate::ctx::{Case, Ctx};
use crate::{fam, gen};

pub const RULE: &str = "cases: pairs (a, b) of full URIs/IRIs stratified by same/different scheme, authority equal/different/absent on either side, shared-prefix length 0..n, target above/below/beside/equal to the base directory, trailing slashes, empty paths, dot and empty segments, query/fragment on either - a structured product of paths x decorations first, then random pairs built by perturbing a common ancestor; a.relative_to(b) must be a valid reference of the family whose resolution against b is == a by the model equivalence and by the library's ==. Non-trivial = every pair; distinct by (a, b)";

pub const MANDATORY: &[&str] = &["relation:below-base-dir", "relation:above-base-dir", "relation:beside", "relation:is-base-dir", "same_scheme:yes", "same_scheme:no", "same_authority:yes", "same_authority:no"];

const PATHS: &[&str] = &["", "/", "/a", "/a/", "/a/b", "/a/b/", "/a/b/c", "/a/c", "/x", "/a/b/c/d/", "/a//b", "/a/./b", "/a/../b", "//a", "/a/b:c", "/\u{e9}/x", "/a/%62", "/caf%E9/menu", "/caf%E9/index", "/%C1%81/c", "/A/d", "/%FF", "/%ff/x"];
const RPATHS: &[&str] = &["", "a", "a/", "a/b", "a/b/c", "a/c", "x", "..", "../a", "a:b", "a//b", "./a", "a/b/"];
const PRE: &[&str] = &["s://h", "s://h2", "s:", "t://h", "s://u@h:1", "S://h", "s://H"];
const SUF: &[&str] = &["", "?q", "#f", "?q#f", "?", "#", "?#", "?q#"];

pub fn exec(ctx: &mut Ctx, case: &Case) {
    let s = |i: usize| std::str::from_utf8(case.s(i)).unwrap_or("");
    match case.mon.as_str() {
        "pair" => {
            let (a, b) = (s(0), s(1));
            let (ia, ua) = fam::valid_in(Prod::Ri, a);
            let (ib, ub) = fam::valid_in(Prod::Ri, b);
            if ia && ib {
                fam::irifam::c15(ctx, a, b);
            }
            if ua && ub {
                fam::urifam::c15(ctx, a, b);
            }
            if !(ia && ib) {
                ctx.stratum("skipped:invalid-by-model");
            }
        }
        _ => ctx.fail("C15.harness", vec![], format!("unknown sub-monitor {}", case.mon)),
    }
}

pub fn generate(ctx: &mut Ctx) {
    let mut bi = 0u64;
    let mut all: Vec<String> = Vec::new();
    for pre in PRE {
        let paths: Vec<&str> = if pre.ends_with(':') { PATHS.iter().chain(RPATHS.iter()).copied().filter(|p| !p.starts_with("//")).collect() } else { PATHS.to_vec() };
        for p in paths {
            all.push(format!("{}{}", pre, p));
        }
    }
    for a in &all {
        for b in &all {
            if ctx.mine(bi) {
                let sa = SUF[(bi as usize / 7) % SUF.len()];
                let sb = SUF[(bi as usize / 3) % SUF.len()];
                ctx.run(Case::new("pair").arg(format!("{}{}", a, sa)).arg(format!("{}{}", b, sb)));
            }
            bi += 1;
        }
    }
    let n = ctx.by_tier(200_000u64, 8_000_000u64) / ctx.nshards;
    for i in 0..n {
        let mut rng = ctx.rng("pair", i);
        let mut o = gen::Opts::new(rng.chance(1, 2));
        o.max_segs = if rng.chance(1, 8) { 30 } else { 6 };
        o.long = rng.chance(1, 10);
        o.bad_pct = rng.chance(1, 4);
        let ha = rng.chance(3, 4);
        let mut p = gen::parts_with(&mut rng, o, true, ha);
        if rng.chance(2, 3) {
            // plain segments: most pairs should be "ordinary"
            let n = rng.below(5);
            let mut path = String::new();
            for _ in 0..n {
                path.push('/');
                path.push_str(rng.pick(&["a", "b", "c", "d"]));
            }
            if rng.chance(1, 3) {
                path.push('/');
            }
            if !ha && rng.chance(1, 3) && path.starts_with('/') {
                path.remove(0);
            }
            p.path = path;
        }
        // b: a variation of a sharing a prefix
        let mut q = p.clone();
        let segs: Vec<&str> = p.path.split('/').collect();
        let keep = rng.below(segs.len() + 1);
        let mut np: Vec<String> = segs[..keep].iter().map(|s| s.to_string()).collect();
        for _ in 0..rng.below(3) {
            np.push(rng.pick(&["a", "b", "x", "", "..", "."]).to_string());
        }
        q.path = np.join("/");
        if q.authority.is_some() && !q.path.is_empty() && !q.path.starts_with('/') {
            q.path.insert(0, '/');
        }
        if q.authority.is_none() && q.path.starts_with("//") {
            q.path = q.path.trim_start_matches('/').to_string();
        }
        match rng.below(10) {
            0 => q.scheme = Some(if rng.chance(1, 2) { "other".to_string() } else { let s = p.scheme.clone().unwrap_or_default(); if s.chars().any(|c| c.is_ascii_lowercase()) { s.to_ascii_uppercase() } else { s.to_ascii_lowercase() } }),
            1 => q.authority = Some("other.host".into()),
            2 => q.authority = None,
            3 => q.query = Some("bq".into()),
            _ => {}
        }
        if q.authority.is_some() && !q.path.is_empty() && !q.path.starts_with('/') {
            q.path.insert(0, '/');
        }
        if q.authority.is_none() && q.path.starts_with("//") {
            q.path = format!("/.{}", q.path);
        }
        let (a, b) = (p.render(), q.render());
        ctx.run(Case::new("pair").arg(&a).arg(&b));
        ctx.run(Case::new("pair").arg(&b).arg(&a));
    }
}
