pub mod c01;
pub mod c02;
pub mod c03;
pub mod c04;
pub mod c05;
pub mod c06;
pub mod c07;
pub mod c08;
pub mod c09;
pub mod c10;
pub mod c11;
pub mod c12;
pub mod c13;
pub mod c14;
pub mod c15;
pub mod c16;
pub mod c17;
pub mod c18;
pub mod c19;
pub mod c20;

use crate::ctx::{Case, Ctx};

pub struct Monitor {
    pub id: &'static str,
    pub rule: &'static str,
    pub mandatory: &'static [&'static str],
    pub exec: fn(&mut Ctx, &Case),
    pub generate: fn(&mut Ctx),
}

macro_rules! m {
    ($id:literal, $m:ident) => {
        Monitor { id: $id, rule: $m::RULE, mandatory: $m::MANDATORY, exec: $m::exec, generate: $m::generate }
    };
}

pub fn registry() -> Vec<Monitor> {
    vec![m!("C01", c01), m!("C02", c02), m!("C03", c03), m!("C04", c04), m!("C05", c05), m!("C06", c06), m!("C07", c07), m!("C08", c08), m!("C09", c09), m!("C10", c10), m!("C11", c11), m!("C12", c12), m!("C13", c13), m!("C14", c14), m!("C15", c15), m!("C16", c16), m!("C18", c18), m!("C19", c19), m!("C20", c20)]
}
