pub mod c01;

use crate::ctx::{Case, Ctx};

pub struct Monitor {
    pub id: &'static str,
    pub rule: &'static str,
    pub mandatory: &'static [&'static str],
    pub exec: fn(&mut Ctx, &Case),
    pub generate: fn(&mut Ctx),
}

pub fn registry() -> Vec<Monitor> {
    vec![
        Monitor { id: "C01", rule: c01::RULE, mandatory: c01::MANDATORY, exec: c01::exec, generate: c01::generate },
    ]
}
