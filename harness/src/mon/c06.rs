//! C06 - reference resolution implements RFC 3986 section 5.2 (with Errata 4547).

use crate::abnf::Prod;
use crate::ctx::{show, Case, Ctx};
use crate::{fam, gen};

pub const RULE: &str = "cases: bases {with/without authority} x {empty, '/', absolute, rootless path; dot, empty and colon segments; with/without query} x references of each of the five 5.2.2 branches (own scheme / own authority / empty path / absolute path / relative path) x paths ending in '.'/'..', leading empty segments, 0-8 '..', ordinary segments, queries and fragments - a structured product first, then random (base, reference) pairs; resolved(), resolve() in place and into_resolved() in both families are compared with a literal implementation of 5.2.2/5.2.3/5.2.4 (+ Errata 4547 for paths not starting with '/') and 5.3, which is itself checked against the RFC's 42 examples at start-up. The structured product includes bases with empty ports, dot-ending paths and 15-33 segments, references with a root path plus query/fragment, '?#', schemes in other letter case. A deviation in the region of the recorded finding is accepted only when the output is exactly what the executable model of that deviation predicts. Non-trivial = every resolved pair; distinct by (base, reference)";

pub const MANDATORY: &[&str] = &[
    "branch:scheme", "branch:authority", "branch:empty-path", "branch:absolute-path", "branch:relative-path", "branch:scheme:last-dot-yes",
    "branch:authority:last-dot-yes", "branch:absolute-path:last-dot-yes", "branch:relative-path:last-dot-yes", "branch:relative-path:last-dot-no",
    "target:ambiguous", "base:authority", "base:no-authority", "families-compared",
];

const BASES: &[&str] = &[
    "http://a/b/c/d;p?q", "http://a", "http://a/", "http://a?q", "s://h/a/b/", "s://h/a/./b/../c", "s://h//a//b", "s:/a/b", "s:/", "s:", "s:a/b", "s:a",
    "s:a:b/c", "s:/a/b?q", "s:?q", "s://", "s:///", "s://u@[::1]:8/x/y", "s:..", "s:../a", "s:/.//a/b", "file:///x/y/z", "s://h/a/b/.", "s://h/a/..", "s://h/..", "s://h/../../x", "s:/a/b/..", "s://h/a/b/?", "s://h/a/b?#", "s://h?q#f", "s:a/./b/../../../c", "s://h/a%2Fb/c", "s://h://a/b", "s://h:/a/b", "s://h:", "s://u@h://", "s://@://x/y", "s://h:80//a//b",
];
const REFS: &[&str] = &[
    "", "#f", "?y", "?y#f", "g", "./g", "g/", "/g", "//g", "//g/x/.", "//g/a/..", "g?y", "g#s", ";x", ".", "./", "..", "../", "../g", "../..", "../../", "../../g",
    "../../../g", "../../../../g", "/./g", "/../g", "/g/.", "/g/..", "/g/../", "g.", ".g", "g..", "..g", "./../g", "./g/.", "g/./h", "g/../h", "g;x=1/../y", "t:g",
    "t:g/.", "t:/g/..", "t:/a/./b/../c/.", "t:a/../b", "t://x/./y/..", "http:g", "s:g", "..//x", "../..//", "..//", ".//x", "//", "///", "/.//x", "a:b", "./a:b",
    "a/b:c", "..//..", "x/../../..", "/..//x", "/a/..//", "g/..//h", "\u{e9}/../\u{e9}", "?", "#", "/", "//h2", "//h2?q", "a//b/../..", "%2e/..", "%2E%2e/x",
    "/?y", "/#s", "/?", "/#", "?#", "#?", ".?y", "..#f", "./?y#s", "S:g", "HTTP:g", "g?y/../z", "g#s/../z", "?y/../z", "#s/../z", "//?y", "//#s", "g/?", "../?", ".//", "...", ".../..", "..a/..",
];

fn run(ctx: &mut Ctx, base: &str, reference: &str) {
    let (bi, bu) = fam::valid_in(Prod::Ri, base);
    let (ri, ru) = fam::valid_in(Prod::RiRef, reference);
    let a = if bi && ri { fam::irifam::c06(ctx, base, reference) } else { None };
    let b = if bu && ru { fam::urifam::c06(ctx, base, reference) } else { None };
    if let (Some(x), Some(y)) = (&a, &b) {
        ctx.stratum("families-compared");
        if x != y {
            ctx.fail("C06.families", vec![("family", "both".into())], format!("{} against {}: IRI family gives {}, URI family gives {}", show(reference.as_bytes()), show(base.as_bytes()), show(x), show(y)));
        }
    }
    if !(bi && ri) {
        ctx.stratum("skipped:invalid-by-model");
    }
}

pub fn exec(ctx: &mut Ctx, case: &Case) {
    let s = |i: usize| std::str::from_utf8(case.s(i)).unwrap_or("");
    match case.mon.as_str() {
        "res" => run(ctx, s(0), s(1)),
        _ => ctx.fail("C06.harness", vec![], format!("unknown sub-monitor {}", case.mon)),
    }
}

pub fn generate(ctx: &mut Ctx) {
    let mut bi = 0u64;
    for b in BASES {
        for r in REFS {
            if ctx.mine(bi) {
                ctx.run(Case::new("res").arg(b).arg(r));
            }
            bi += 1;
        }
    }
    for nb in [15usize, 16, 17, 18, 33] {
        for nr in [0usize, 1, 15, 16, 17, 18, 40] {
            if ctx.mine(bi) {
                let base = format!("s://h/{}file?bq", (0..nb).map(|i| format!("b{}/", i)).collect::<String>());
                for ups in [0usize, 1, nb / 2, nb, nb + 3] {
                    let reference = format!("{}{}x/.", "../".repeat(ups), (0..nr).map(|i| format!("r{}/", i)).collect::<String>());
                    ctx.run(Case::new("res").arg(&base).arg(&reference));
                    ctx.run(Case::new("res").arg(base.replace("//h", "")).arg(&reference));
                }
            }
            bi += 1;
        }
    }
    let n = ctx.by_tier(300_000u64, 12_000_000u64) / ctx.nshards;
    for i in 0..n {
        let mut rng = ctx.rng("res", i);
        let mut o = gen::Opts::new(rng.chance(1, 2));
        o.max_segs = if rng.chance(1, 6) { 40 } else { 10 };
        o.long = rng.chance(1, 6);
        o.bad_pct = rng.chance(1, 6);
        let base = if rng.chance(1, 3) { rng.pick(BASES).to_string() } else { gen::full(&mut rng, o) };
        let reference = match rng.below(10) {
            0 => rng.pick(REFS).to_string(),
            1 => {
                // many '..' and dot-ending paths
                let mut p = String::new();
                for _ in 0..rng.below(9) {
                    p.push_str("../");
                }
                p.push_str(rng.pick(&["", "g", ".", "..", "g/.", "g/..", "/", "//x", "g/"]));
                p
            }
            2 => format!("{}{}", gen::path(&mut rng, o), rng.pick(&["", "/.", "/..", "/./", "/../"])),
            _ => gen::reference(&mut rng, o),
        };
        ctx.run(Case::new("res").arg(&base).arg(&reference));
    }
}
