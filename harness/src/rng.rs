//! Deterministic SplitMix64 streams.  Every case seeds its own stream from a
//! hash of (VERIF_SEED, property, generator, shard, index) so that nothing
//! depends on thread timing or on the number of workers.

#[derive(Clone)]
pub struct Rng(u64);

pub fn mix(mut z: u64) -> u64 {
    z = z.wrapping_add(0x9E37_79B9_7F4A_7C15);
    z = (z ^ (z >> 30)).wrapping_mul(0xBF58_476D_1CE4_E5B9);
    z = (z ^ (z >> 27)).wrapping_mul(0x94D0_49BB_1331_11EB);
    z ^ (z >> 31)
}

pub fn hash_bytes(b: &[u8]) -> u64 {
    // FNV-1a followed by a finaliser; only used for seeding and fingerprints.
    let mut h: u64 = 0xcbf2_9ce4_8422_2325;
    for &x in b {
        h ^= x as u64;
        h = h.wrapping_mul(0x0000_0100_0000_01B3);
    }
    mix(h)
}

impl Rng {
    pub fn new(seed: u64) -> Self {
        Rng(mix(seed))
    }
    pub fn for_case(seed: u64, prop: &str, gen: &str, shard: u64, index: u64) -> Self {
        let mut h = mix(seed);
        h = mix(h ^ hash_bytes(prop.as_bytes()));
        h = mix(h ^ hash_bytes(gen.as_bytes()));
        h = mix(h ^ shard.wrapping_mul(0x9E37_79B9_7F4A_7C15));
        h = mix(h ^ index);
        Rng(h)
    }
    pub fn next(&mut self) -> u64 {
        self.0 = self.0.wrapping_add(0x9E37_79B9_7F4A_7C15);
        let mut z = self.0;
        z = (z ^ (z >> 30)).wrapping_mul(0xBF58_476D_1CE4_E5B9);
        z = (z ^ (z >> 27)).wrapping_mul(0x94D0_49BB_1331_11EB);
        z ^ (z >> 31)
    }
    /// uniform in 0..n (n > 0)
    pub fn below(&mut self, n: usize) -> usize {
        (self.next() % (n as u64)) as usize
    }
    pub fn range(&mut self, lo: usize, hi_incl: usize) -> usize {
        lo + self.below(hi_incl - lo + 1)
    }
    pub fn chance(&mut self, num: u32, den: u32) -> bool {
        (self.next() % den as u64) < num as u64
    }
    pub fn pick<T: Copy>(&mut self, xs: &[T]) -> T {
        xs[self.below(xs.len())]
    }
}
