//! Worker / replay binary of the iref runtime-monitoring harness.
//!
//!   iref-verif <PROP> [--tier quick|thorough] [--seed N] [--threads T]
//!              [--out FILE] [--trace FILE] [--replay FILE] [--shards N]
//!
//! Exit status: 0 = ran to completion (violations, if any, are in the JSON
//! result; the driver decides), 3 = inconclusive (model self-test failed,
//! bad arguments).

mod abnf;
mod alloc;
mod ctx;
mod fam;
mod gen;
mod model;
mod mon;
mod rng;

use ctx::{Case, Ctx, Tier};
use std::sync::atomic::{AtomicU64, Ordering};
use std::sync::Mutex;
use std::time::Instant;

#[global_allocator]
static GLOBAL: alloc::Counting = alloc::Counting;

fn main() {
    let args: Vec<String> = std::env::args().collect();
    if args.len() < 2 {
        eprintln!("usage: iref-verif <PROP> [--tier quick|thorough] [--seed N] [--threads T] [--out FILE] [--trace FILE] [--replay FILE]");
        std::process::exit(3);
    }
    let prop = args[1].clone();
    if prop == "--version" {
        println!("iref-verif worker");
        return;
    }
    let mut tier = Tier::Quick;
    let mut seed: u64 = 1;
    let mut threads: usize = 16;
    let mut out: Option<String> = None;
    let mut trace: Option<String> = None;
    let mut replay: Option<String> = None;
    let mut nshards: u64 = 64;
    let mut only_shard: Option<u64> = None;
    let mut skip_self_test = false;
    let mut dump_sample: Option<usize> = None;
    let mut dump_max_bytes: usize = 1500;
    let mut replay_list: Option<String> = None;
    let mut i = 2;
    while i < args.len() {
        let v = args.get(i + 1).cloned().unwrap_or_default();
        match args[i].as_str() {
            "--tier" => tier = if v == "thorough" { Tier::Thorough } else if v == "tiny" { Tier::Tiny } else { Tier::Quick },
            "--seed" => seed = v.parse().unwrap_or(1),
            "--threads" => threads = v.parse().unwrap_or(16),
            "--out" => out = Some(v),
            "--trace" => trace = Some(v),
            "--replay" => replay = Some(v),
            "--shards" => nshards = v.parse().unwrap_or(64),
            "--only-shard" => only_shard = v.parse().ok(),
            "--dump-sample" => dump_sample = v.parse().ok(),
            "--dump-max-bytes" => dump_max_bytes = v.parse().unwrap_or(1500),
            "--replay-list" => replay_list = Some(v),
            "--skip-self-test" => {
                // the model self-tests already ran natively in the same check (they are slow under Miri)
                skip_self_test = true;
                i += 1;
                continue;
            }
            x => {
                eprintln!("unknown argument {}", x);
                std::process::exit(3);
            }
        }
        i += 2;
    }
    if let Err(e) = if skip_self_test { Ok(()) } else { abnf::self_test().and_then(|_| model::self_test()) } {
        println!("INCONCLUSIVE property={} reason=model-self-test {}", prop, e);
        std::process::exit(3);
    }
    if prop == "C17" {
        // C17's observed execution is the compiler: only generate the programs here
        let dir = out.clone().unwrap_or_else(|| "/verif/work/c17".to_string());
        let repo = std::env::var("IREF_REPO").unwrap_or_else(|_| "/repo".to_string());
        match mon::c17::generate_crates(&dir, tier == Tier::Thorough, seed, &repo) {
            Ok(()) => std::process::exit(0),
            Err(e) => {
                println!("INCONCLUSIVE property=C17 reason=generator {}", e);
                std::process::exit(3);
            }
        }
    }
    let reg = mon::registry();
    let Some(m) = reg.iter().find(|m| m.id == prop) else {
        println!("INCONCLUSIVE property={} reason=no-such-monitor", prop);
        std::process::exit(3);
    };
    ctx::install_panic_hook();
    let start = Instant::now();
    let result;
    if let Some(path) = replay {
        let text = std::fs::read_to_string(&path).expect("replay file");
        let v: serde_json::Value = serde_json::from_str(&text).expect("replay json");
        let case = Case::from_json(v.get("case").unwrap_or(&v)).expect("replay case");
        let mut c = Ctx::new(m.id, tier, seed, 0, 1, m.exec);
        c.run(case);
        result = c.to_json(start.elapsed().as_secs_f64(), m.rule, &[]);
    } else if let Some(path) = replay_list {
        // sanitizer stages: execute the cases of a sampled list (written by --dump-sample); with
        // --shards N --only-shard I only the cases whose position is I modulo N
        let text = std::fs::read_to_string(&path).expect("replay list");
        let v: serde_json::Value = serde_json::from_str(&text).expect("replay list json");
        let n = if only_shard.is_some() { nshards } else { 1 };
        let me = only_shard.unwrap_or(0);
        let mut c = Ctx::new(m.id, tier, seed, me, n, m.exec);
        if let Some(t) = &trace {
            c.trace = std::fs::OpenOptions::new().create(true).write(true).truncate(true).open(t).ok();
        }
        for (k, cv) in v.get("cases").and_then(|x| x.as_array()).expect("cases").iter().enumerate() {
            if k as u64 % n == me {
                c.run(Case::from_json(cv).expect("case"));
            }
        }
        result = c.to_json(start.elapsed().as_secs_f64(), m.rule, &[]);
    } else if let Some(total_per_mon) = dump_sample {
        // generate the whole workload of this tier without executing it; keep a uniform sample per
        // sub-monitor (reservoir per shard, then a deterministic thinning of the union)
        let per_shard = (total_per_mon + nshards as usize - 1) / nshards as usize + 1;
        let all = Mutex::new((0u64, std::collections::BTreeMap::<String, Vec<(u64, Case)>>::new(), std::collections::BTreeMap::<String, u64>::new()));
        let next = AtomicU64::new(0);
        std::thread::scope(|s| {
            for _ in 0..threads {
                s.spawn(|| loop {
                    let shard = next.fetch_add(1, Ordering::SeqCst);
                    if shard >= nshards {
                        break;
                    }
                    let mut c = Ctx::new(m.id, tier, seed, shard, nshards, m.exec);
                    c.dump = Some(ctx::Dump::new(per_shard, dump_max_bytes, rng::Rng::for_case(seed, m.id, "dump", shard, 0)));
                    (m.generate)(&mut c);
                    let d = c.dump.take().unwrap();
                    let mut g = all.lock().unwrap();
                    g.0 += c.evals;
                    for (k, n) in d.seen {
                        *g.2.entry(k).or_insert(0) += n;
                    }
                    for (k, cases) in d.kept {
                        let e = g.1.entry(k).or_default();
                        for case in cases {
                            let key = rng::mix(case.fingerprint() ^ rng::mix(seed));
                            e.push((key, case));
                        }
                    }
                });
            }
        });
        let (generated, kept, seen) = all.into_inner().unwrap();
        let mut cases = Vec::new();
        let mut per = serde_json::Map::new();
        for (k, mut v) in kept {
            v.sort_by_key(|x| x.0);
            v.truncate(total_per_mon);
            per.insert(k.clone(), serde_json::json!({"eligible": seen.get(&k).copied().unwrap_or(0), "sampled": v.len()}));
            cases.extend(v.into_iter().map(|x| (x.0, x.1)));
        }
        // interleave the sub-monitors so that every shard of the replay sees all of them
        cases.sort_by_key(|x| x.0);
        result = serde_json::json!({"generated": generated, "per_sub_monitor": per, "cases": cases.iter().map(|x| x.1.to_json()).collect::<Vec<_>>()});
    } else {
        let total = Mutex::new(Ctx::new(m.id, tier, seed, 0, nshards, m.exec));
        let next = AtomicU64::new(0);
        if trace.is_some() {
            threads = 1;
        }
        std::thread::scope(|s| {
            for _ in 0..threads {
                s.spawn(|| loop {
                    let shard = next.fetch_add(1, Ordering::SeqCst);
                    if shard >= nshards {
                        break;
                    }
                    if let Some(o) = only_shard {
                        if shard != o {
                            continue;
                        }
                    }
                    let mut c = Ctx::new(m.id, tier, seed, shard, nshards, m.exec);
                    if let Some(t) = &trace {
                        c.trace = std::fs::OpenOptions::new().create(true).write(true).truncate(true).open(t).ok();
                    }
                    (m.generate)(&mut c);
                    total.lock().unwrap().merge(c);
                });
            }
        });
        let c = total.into_inner().unwrap();
        result = c.to_json(start.elapsed().as_secs_f64(), m.rule, m.mandatory);
    }
    let text = serde_json::to_string(&result).unwrap();
    match out {
        Some(p) => std::fs::write(p, text).expect("write result"),
        None => println!("{}", text),
    }
}
