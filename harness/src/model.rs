//! Reference models (DESIGN section 3), written from the RFC text and the
//! property statements.  Everything works on bytes of *valid* values.

pub type B<'a> = &'a [u8];

// ---------------------------------------------------------------- M-split

#[derive(Clone, Debug, PartialEq, Eq)]
pub struct Split<'a> {
    pub scheme: Option<B<'a>>,
    pub authority: Option<B<'a>>,
    pub path: B<'a>,
    pub query: Option<B<'a>>,
    pub fragment: Option<B<'a>>,
}

/// RFC 3986 Appendix B:
/// `^(([^:/?#]+):)?(//([^/?#]*))?([^?#]*)(\?([^#]*))?(#(.*))?`
pub fn split(s: B) -> Split {
    let mut rest = s;
    let mut scheme = None;
    // ([^:/?#]+):
    let mut i = 0;
    while i < rest.len() && !matches!(rest[i], b':' | b'/' | b'?' | b'#') {
        i += 1;
    }
    if i > 0 && i < rest.len() && rest[i] == b':' {
        scheme = Some(&rest[..i]);
        rest = &rest[i + 1..];
    }
    let mut authority = None;
    if rest.starts_with(b"//") {
        let r = &rest[2..];
        let e = r
            .iter()
            .position(|&c| matches!(c, b'/' | b'?' | b'#'))
            .unwrap_or(r.len());
        authority = Some(&r[..e]);
        rest = &r[e..];
    }
    let e = rest
        .iter()
        .position(|&c| matches!(c, b'?' | b'#'))
        .unwrap_or(rest.len());
    let path = &rest[..e];
    rest = &rest[e..];
    let mut query = None;
    if rest.first() == Some(&b'?') {
        let r = &rest[1..];
        let e = r.iter().position(|&c| c == b'#').unwrap_or(r.len());
        query = Some(&r[..e]);
        rest = &r[e..];
    }
    let mut fragment = None;
    if rest.first() == Some(&b'#') {
        fragment = Some(&rest[1..]);
    }
    Split {
        scheme,
        authority,
        path,
        query,
        fragment,
    }
}

/// RFC 3986 section 5.3.
pub fn recompose(
    scheme: Option<B>,
    authority: Option<B>,
    path: B,
    query: Option<B>,
    fragment: Option<B>,
) -> Vec<u8> {
    let mut r = Vec::new();
    if let Some(s) = scheme {
        r.extend_from_slice(s);
        r.push(b':');
    }
    if let Some(a) = authority {
        r.extend_from_slice(b"//");
        r.extend_from_slice(a);
    }
    r.extend_from_slice(path);
    if let Some(q) = query {
        r.push(b'?');
        r.extend_from_slice(q);
    }
    if let Some(f) = fragment {
        r.push(b'#');
        r.extend_from_slice(f);
    }
    r
}

#[derive(Clone, Debug, PartialEq, Eq)]
pub struct AuthSplit<'a> {
    pub user_info: Option<B<'a>>,
    pub host: B<'a>,
    pub port: Option<B<'a>>,
}

/// RFC 3986 section 3.2 for a *valid* authority (at most one '@').
pub fn split_authority(a: B) -> AuthSplit {
    let (user_info, rest) = match a.iter().position(|&c| c == b'@') {
        Some(i) => (Some(&a[..i]), &a[i + 1..]),
        None => (None, a),
    };
    let host_end = if rest.first() == Some(&b'[') {
        match rest.iter().position(|&c| c == b']') {
            Some(i) => i + 1,
            None => rest.len(),
        }
    } else {
        rest.iter().position(|&c| c == b':').unwrap_or(rest.len())
    };
    let host = &rest[..host_end];
    let port = if host_end < rest.len() && rest[host_end] == b':' {
        Some(&rest[host_end + 1..])
    } else {
        None
    };
    AuthSplit {
        user_info,
        host,
        port,
    }
}

pub fn render_authority(ui: Option<B>, host: B, port: Option<B>) -> Vec<u8> {
    let mut r = Vec::new();
    if let Some(u) = ui {
        r.extend_from_slice(u);
        r.push(b'@');
    }
    r.extend_from_slice(host);
    if let Some(p) = port {
        r.push(b':');
        r.extend_from_slice(p);
    }
    r
}

// ---------------------------------------------------------------- M-pct

fn hexval(b: u8) -> Option<u8> {
    match b {
        b'0'..=b'9' => Some(b - b'0'),
        b'a'..=b'f' => Some(b - b'a' + 10),
        b'A'..=b'F' => Some(b - b'A' + 10),
        _ => None,
    }
}

/// Percent-decoding to octets: `%XX` -> byte, anything else verbatim.
pub fn pct_decode(s: B) -> Vec<u8> {
    let mut r = Vec::with_capacity(s.len());
    let mut i = 0;
    while i < s.len() {
        if s[i] == b'%' && i + 2 < s.len() {
            if let (Some(a), Some(b)) = (hexval(s[i + 1]), hexval(s[i + 2])) {
                r.push(a << 4 | b);
                i += 3;
                continue;
            }
        }
        r.push(s[i]);
        i += 1;
    }
    r
}

// ---------------------------------------------------------------- M-seg / M-norm

/// (absolute?, '/'-separated pieces after the optional leading '/').
/// `""` and `"/"` have no segments.
pub fn segments(p: B) -> (bool, Vec<B>) {
    let abs = p.first() == Some(&b'/');
    let rest = if abs { &p[1..] } else { p };
    if rest.is_empty() {
        return (abs, Vec::new());
    }
    (abs, rest.split(|&c| c == b'/').collect())
}

pub fn render_segments(abs: bool, segs: &[B]) -> Vec<u8> {
    let mut r = Vec::new();
    if abs {
        r.push(b'/');
    }
    for (i, s) in segs.iter().enumerate() {
        if i > 0 {
            r.push(b'/');
        }
        r.extend_from_slice(s);
    }
    r
}

/// Normalised segment sequence: left-to-right stack walk; '.' dropped; '..'
/// pops, or is kept when the path is relative and nothing (or only '..') is
/// left to pop (Errata 4547), or is dropped at the root of an absolute path.
pub fn norm_seq<'a>(abs: bool, segs: &[B<'a>]) -> Vec<B<'a>> {
    let mut st: Vec<B> = Vec::new();
    for &s in segs {
        if s == b"." {
        } else if s == b".." {
            match st.last() {
                Some(&t) if t != b".." => {
                    st.pop();
                }
                _ => {
                    if !abs {
                        st.push(s)
                    }
                }
            }
        } else {
            st.push(s)
        }
    }
    st
}

/// Rendering of the normalised sequence per section 5.2.4: join with '/', and a
/// trailing '/' when the last raw segment was a dot segment and the sequence is
/// non-empty.
pub fn norm_render(p: B) -> Vec<u8> {
    let (abs, segs) = segments(p);
    let st = norm_seq(abs, &segs);
    let mut r = render_segments(abs, &st);
    if let Some(&last) = segs.last() {
        if (last == b"." || last == b"..") && !st.is_empty() {
            r.push(b'/');
        }
    }
    r
}

/// Literal RFC 3986 section 5.2.4 string algorithm (steps A - E).
pub fn remove_dot_segments_rfc(input: B) -> Vec<u8> {
    let mut inp: Vec<u8> = input.to_vec();
    let mut out: Vec<u8> = Vec::new();
    fn pop_last(out: &mut Vec<u8>) {
        // remove the last segment and its preceding "/" (if any)
        match out.iter().rposition(|&c| c == b'/') {
            Some(i) => out.truncate(i),
            None => out.clear(),
        }
    }
    while !inp.is_empty() {
        if inp.starts_with(b"../") {
            inp.drain(..3);
        } else if inp.starts_with(b"./") {
            inp.drain(..2);
        } else if inp.starts_with(b"/./") {
            inp.drain(..2);
        } else if inp == b"/." {
            inp = b"/".to_vec();
        } else if inp.starts_with(b"/../") {
            inp.drain(..3);
            pop_last(&mut out);
        } else if inp == b"/.." {
            inp = b"/".to_vec();
            pop_last(&mut out);
        } else if inp == b"." || inp == b".." {
            inp.clear();
        } else {
            let start = if inp[0] == b'/' { 1 } else { 0 };
            let e = inp[start..]
                .iter()
                .position(|&c| c == b'/')
                .map(|i| i + start)
                .unwrap_or(inp.len());
            out.extend_from_slice(&inp[..e]);
            inp.drain(..e);
        }
    }
    out
}

// ---------------------------------------------------------------- M-eq

pub fn eq_component(a: B, b: B) -> bool {
    pct_decode(a) == pct_decode(b)
}
pub fn eq_opt_component(a: Option<B>, b: Option<B>) -> bool {
    match (a, b) {
        (None, None) => true,
        (Some(a), Some(b)) => eq_component(a, b),
        _ => false,
    }
}
pub fn eq_authority(a: B, b: B) -> bool {
    let x = split_authority(a);
    let y = split_authority(b);
    eq_opt_component(x.user_info, y.user_info) && eq_component(x.host, y.host) && x.port == y.port
}
pub fn eq_path(a: B, b: B) -> bool {
    let (aa, asg) = segments(a);
    let (ba, bsg) = segments(b);
    if aa != ba {
        return false;
    }
    let an = norm_seq(aa, &asg);
    let bn = norm_seq(ba, &bsg);
    an.len() == bn.len() && an.iter().zip(bn.iter()).all(|(x, y)| eq_component(x, y))
}
pub fn eq_ref(a: B, b: B) -> bool {
    let x = split(a);
    let y = split(b);
    x.scheme == y.scheme
        && match (x.authority, y.authority) {
            (None, None) => true,
            (Some(p), Some(q)) => eq_authority(p, q),
            _ => false,
        }
        && eq_path(x.path, y.path)
        && eq_opt_component(x.query, y.query)
        && eq_opt_component(x.fragment, y.fragment)
}

/// Is the RFC resolution target `t` (kept as components, so never ambiguous) equal, in the sense of
/// M-eq, to the reference text `a`?
pub fn eq_target(t: &Target, a: B) -> bool {
    let y = split(a);
    if Some(&t.scheme[..]) != y.scheme {
        return false;
    }
    let auth_ok = match (t.authority.as_deref(), y.authority) {
        (None, None) => true,
        (Some(p), Some(q)) => eq_authority(p, q),
        _ => false,
    };
    if !auth_ok || !eq_opt_component(t.query.as_deref(), y.query) || !eq_opt_component(t.fragment.as_deref(), y.fragment) {
        return false;
    }
    if t.zone_a {
        // the text of t.path is not faithful; compare segment sequences
        let (aabs, asg) = segments(y.path);
        if aabs {
            return false;
        }
        let an = norm_seq(false, &asg);
        let tsegs: Vec<B> = t.path_segs.iter().map(|x| &x[..]).collect();
        let tn = norm_seq(false, &tsegs);
        an.len() == tn.len() && an.iter().zip(tn.iter()).all(|(x, y)| eq_component(x, y))
    } else {
        eq_path(&t.path, y.path)
    }
}

// ---------------------------------------------------------------- M-resolve

#[derive(Clone, Debug, PartialEq, Eq)]
pub struct Target {
    pub scheme: Vec<u8>,
    pub authority: Option<Vec<u8>>,
    pub path: Vec<u8>,
    pub query: Option<Vec<u8>>,
    pub fragment: Option<Vec<u8>>,
    /// which 5.2.2 branch was taken
    pub branch: &'static str,
    /// the path lies in don't-care zone (a): relative, and its normalised
    /// sequence starts with an empty segment
    pub zone_a: bool,
    /// expected logical segments of the path (normalised sequence plus the
    /// empty segment that spells a trailing '/'); used in zone (a), where the
    /// text rendering is not faithful
    pub path_segs: Vec<Vec<u8>>,
    /// during the 5.2.4 walk of the (merged) path an empty segment was met
    /// while the output was empty
    pub empty_on_empty: bool,
}

/// The library's *documented* deviation for the relative-path branch (known finding of C06): the
/// base directory is normalised in place (a lone empty segment is spelled '/', i.e. lost) and the
/// reference is appended symbolically, where an empty segment pushed on an empty path is ignored.
/// Returns (absolute?, logical segments) of the merged path under that reading.  Used only to
/// decide whether an observed deviation IS the recorded finding or something else.
pub fn quirk_merge(base: B, reference: B) -> (bool, Vec<Vec<u8>>) {
    let bsp = split(base);
    let rsp = split(reference);
    let (abs, mut cur): (bool, Vec<Vec<u8>>) = if bsp.authority.is_some() && bsp.path.is_empty() {
        (true, Vec::new())
    } else {
        let (abs, bsegs) = segments(bsp.path);
        let parent: Vec<B> = if bsegs.is_empty() { Vec::new() } else { bsegs[..bsegs.len() - 1].to_vec() };
        let mut n: Vec<Vec<u8>> = norm_seq(abs, &parent).into_iter().map(|x| x.to_vec()).collect();
        if n.len() == 1 && n[0].is_empty() {
            n.clear();
        }
        (abs, n)
    };
    let (_rabs, rsegs) = segments(rsp.path);
    for seg in &rsegs {
        if *seg == b"." {
        } else if *seg == b".." {
            match cur.last() {
                Some(x) if x != b".." => {
                    cur.pop();
                }
                _ => {
                    if !abs {
                        cur.push(b"..".to_vec())
                    }
                }
            }
        } else if seg.is_empty() && cur.is_empty() {
        } else {
            cur.push(seg.to_vec());
        }
    }
    let open = rsegs.last().map_or(false, |l| *l == b"." || *l == b"..");
    if open && !cur.is_empty() {
        cur.push(Vec::new());
    }
    (abs, cur)
}

/// Was an empty segment met while the output stack was empty during the walk?
pub fn walk_meets_empty_on_empty(p: B) -> bool {
    let (abs, segs) = segments(p);
    let mut st: Vec<B> = Vec::new();
    for &s in &segs {
        if s == b"." {
        } else if s == b".." {
            match st.last() {
                Some(&t) if t != b".." => {
                    st.pop();
                }
                _ => {
                    if !abs {
                        st.push(s)
                    }
                }
            }
        } else {
            if s.is_empty() && st.is_empty() {
                return true;
            }
            st.push(s)
        }
    }
    false
}

fn expected_segs(p: B) -> Vec<Vec<u8>> {
    let (abs, segs) = segments(p);
    let mut st: Vec<Vec<u8>> = norm_seq(abs, &segs).into_iter().map(|x| x.to_vec()).collect();
    if segs.last().map_or(false, |l| *l == b"." || *l == b"..") && !st.is_empty() {
        st.push(Vec::new());
    }
    st
}

/// Dot-segment removal as the property prescribes: the literal 5.2.4 algorithm
/// for paths starting with '/', Errata 4547 sequence semantics otherwise.
/// Returns (text, in zone (a)).
pub fn remove_dots(p: B) -> (Vec<u8>, bool) {
    if p.first() == Some(&b'/') {
        (remove_dot_segments_rfc(p), false)
    } else {
        let (abs, segs) = segments(p);
        let st = norm_seq(abs, &segs);
        let zone = st.first().map_or(false, |s| s.is_empty());
        (norm_render(p), zone)
    }
}

pub fn merge(base_has_authority: bool, base_path: B, rpath: B) -> Vec<u8> {
    if base_has_authority && base_path.is_empty() {
        let mut r = b"/".to_vec();
        r.extend_from_slice(rpath);
        r
    } else {
        let mut r = match base_path.iter().rposition(|&c| c == b'/') {
            Some(i) => base_path[..=i].to_vec(),
            None => Vec::new(),
        };
        r.extend_from_slice(rpath);
        r
    }
}

pub fn resolve(base: B, reference: B) -> Target {
    let b = split(base);
    let r = split(reference);
    let ov = |x: Option<B>| x.map(|v| v.to_vec());
    let (scheme, authority, path, query, branch): (Vec<u8>, Option<Vec<u8>>, (Vec<u8>, bool), Option<Vec<u8>>, &'static str);
    let mut raw_path: Vec<u8> = Vec::new();
    if let Some(rs) = r.scheme {
        scheme = rs.to_vec();
        authority = ov(r.authority);
        path = remove_dots(r.path);
        raw_path = r.path.to_vec();
        query = ov(r.query);
        branch = "scheme";
    } else {
        scheme = b.scheme.unwrap_or(b"").to_vec();
        if r.authority.is_some() {
            authority = ov(r.authority);
            path = remove_dots(r.path);
            raw_path = r.path.to_vec();
            query = ov(r.query);
            branch = "authority";
        } else {
            authority = ov(b.authority);
            if r.path.is_empty() {
                path = (b.path.to_vec(), false);
                query = if r.query.is_some() { ov(r.query) } else { ov(b.query) };
                branch = "empty-path";
            } else if r.path.starts_with(b"/") {
                path = remove_dots(r.path);
                raw_path = r.path.to_vec();
                query = ov(r.query);
                branch = "absolute-path";
            } else {
                let m = merge(b.authority.is_some(), b.path, r.path);
                path = remove_dots(&m);
                raw_path = m.clone();
                query = ov(r.query);
                branch = "relative-path";
            }
        }
    }
    Target {
        scheme,
        authority,
        path: path.0,
        query,
        fragment: ov(r.fragment),
        branch,
        zone_a: path.1,
        path_segs: if branch == "empty-path" { Vec::new() } else { expected_segs(&raw_path) },
        empty_on_empty: branch != "empty-path" && walk_meets_empty_on_empty(&raw_path),
    }
}

impl Target {
    pub fn recompose(&self) -> Vec<u8> {
        recompose(
            Some(&self.scheme),
            self.authority.as_deref(),
            &self.path,
            self.query.as_deref(),
            self.fragment.as_deref(),
        )
    }
}

// ---------------------------------------------------------------- shield rule

/// Text-level shield rule (C05, C06): does `actual` equal `expected` modulo a
/// permitted disambiguating prefix?  `has_scheme`/`has_authority` describe the
/// enclosing reference *after* the operation.
pub fn path_matches_shielded(actual: B, expected: B, has_scheme: bool, has_authority: bool) -> bool {
    if actual == expected {
        return true;
    }
    let prefixed = |pre: &[u8]| actual.len() == expected.len() + pre.len() && actual.starts_with(pre) && &actual[pre.len()..] == expected;
    // "/" + P with an authority present and P relative
    if has_authority && !expected.starts_with(b"/") && prefixed(b"/") {
        return true;
    }
    // "/." + P with no authority and P starting with "//"
    if !has_authority && expected.starts_with(b"//") && prefixed(b"/.") {
        return true;
    }
    // "./" + P with neither scheme nor authority and a first segment containing ':'
    if !has_scheme && !has_authority && !expected.starts_with(b"/") {
        let fe = expected.iter().position(|&c| c == b'/').unwrap_or(expected.len());
        if expected[..fe].contains(&b':') && prefixed(b"./") {
            return true;
        }
    }
    false
}

/// Segment-level shield: `actual` segments equal `expected` segments, or
/// `actual == ["."] ++ expected` with the first expected segment empty or
/// containing ':' (or, for an absolute path without authority, empty).
pub fn segs_match_shielded(actual: &[B], expected: &[B]) -> bool {
    if actual == expected {
        return true;
    }
    if actual.len() == expected.len() + 1 && actual[0] == b"." && &actual[1..] == expected {
        if let Some(f) = expected.first() {
            return f.is_empty() || f.contains(&b':');
        }
    }
    false
}

// ---------------------------------------------------------------- M-b64

pub fn b64_encode(d: &[u8]) -> Vec<u8> {
    const T: &[u8; 64] = b"ABCDEFGHIJKLMNOPQRSTUVWXYZabcdefghijklmnopqrstuvwxyz0123456789+/";
    let mut r = Vec::new();
    for ch in d.chunks(3) {
        let n = (ch[0] as u32) << 16 | (*ch.get(1).unwrap_or(&0) as u32) << 8 | *ch.get(2).unwrap_or(&0) as u32;
        r.push(T[(n >> 18) as usize & 63]);
        r.push(T[(n >> 12) as usize & 63]);
        r.push(if ch.len() > 1 { T[(n >> 6) as usize & 63] } else { b'=' });
        r.push(if ch.len() > 2 { T[n as usize & 63] } else { b'=' });
    }
    r
}

/// Canonical base64 (standard alphabet, padded, zero trailing bits).
pub fn b64_is_canonical(s: &[u8]) -> bool {
    if s.len() % 4 != 0 {
        return false;
    }
    match b64_decode(s) {
        Some(d) => b64_encode(&d) == s,
        None => false,
    }
}

pub fn b64_decode(s: &[u8]) -> Option<Vec<u8>> {
    fn v(c: u8) -> Option<u32> {
        match c {
            b'A'..=b'Z' => Some((c - b'A') as u32),
            b'a'..=b'z' => Some((c - b'a') as u32 + 26),
            b'0'..=b'9' => Some((c - b'0') as u32 + 52),
            b'+' => Some(62),
            b'/' => Some(63),
            _ => None,
        }
    }
    if s.len() % 4 != 0 {
        return None;
    }
    let mut r = Vec::new();
    let n = s.len() / 4;
    for (i, ch) in s.chunks(4).enumerate() {
        let pad = if i + 1 == n {
            if ch[3] == b'=' {
                if ch[2] == b'=' {
                    2
                } else {
                    1
                }
            } else {
                0
            }
        } else {
            0
        };
        let a = v(ch[0])?;
        let b = v(ch[1])?;
        let c = if pad == 2 { 0 } else { v(ch[2])? };
        let d = if pad >= 1 { 0 } else { v(ch[3])? };
        let w = a << 18 | b << 12 | c << 6 | d;
        r.push((w >> 16) as u8);
        if pad < 2 {
            r.push((w >> 8) as u8);
        }
        if pad < 1 {
            r.push(w as u8);
        }
    }
    Some(r)
}

// ---------------------------------------------------------------- self tests

pub fn self_test() -> Result<(), String> {
    // RFC 3986 section 5.4.1 / 5.4.2 with base http://a/b/c/d;p?q
    let base = b"http://a/b/c/d;p?q";
    let table: &[(&str, &str)] = &[
        ("g:h", "g:h"), ("g", "http://a/b/c/g"), ("./g", "http://a/b/c/g"),
        ("g/", "http://a/b/c/g/"), ("/g", "http://a/g"), ("//g", "http://g"),
        ("?y", "http://a/b/c/d;p?y"), ("g?y", "http://a/b/c/g?y"),
        ("#s", "http://a/b/c/d;p?q#s"), ("g#s", "http://a/b/c/g#s"),
        ("g?y#s", "http://a/b/c/g?y#s"), (";x", "http://a/b/c/;x"),
        ("g;x", "http://a/b/c/g;x"), ("g;x?y#s", "http://a/b/c/g;x?y#s"),
        ("", "http://a/b/c/d;p?q"), (".", "http://a/b/c/"), ("./", "http://a/b/c/"),
        ("..", "http://a/b/"), ("../", "http://a/b/"), ("../g", "http://a/b/g"),
        ("../..", "http://a/"), ("../../", "http://a/"), ("../../g", "http://a/g"),
        ("../../../g", "http://a/g"), ("../../../../g", "http://a/g"),
        ("/./g", "http://a/g"), ("/../g", "http://a/g"), ("g.", "http://a/b/c/g."),
        (".g", "http://a/b/c/.g"), ("g..", "http://a/b/c/g.."), ("..g", "http://a/b/c/..g"),
        ("./../g", "http://a/b/g"), ("./g/.", "http://a/b/c/g/"),
        ("g/./h", "http://a/b/c/g/h"), ("g/../h", "http://a/b/c/h"),
        ("g;x=1/./y", "http://a/b/c/g;x=1/y"), ("g;x=1/../y", "http://a/b/c/y"),
        ("g?y/./x", "http://a/b/c/g?y/./x"), ("g?y/../x", "http://a/b/c/g?y/../x"),
        ("g#s/./x", "http://a/b/c/g#s/./x"), ("g#s/../x", "http://a/b/c/g#s/../x"),
        ("http:g", "http:g"),
    ];
    for (r, want) in table {
        let got = resolve(base, r.as_bytes()).recompose();
        if got != want.as_bytes() {
            return Err(format!(
                "M-resolve self-test: {:?} -> {:?}, RFC says {:?}",
                r,
                String::from_utf8_lossy(&got),
                want
            ));
        }
    }
    // 5.2.4 worked examples
    for (i, o) in [("/a/b/c/./../../g", "/a/g"), ("mid/content=5/../6", "mid/6")] {
        if remove_dot_segments_rfc(i.as_bytes()) != o.as_bytes() {
            return Err(format!("5.2.4 self-test {:?}", i));
        }
    }
    // sequence semantics == literal algorithm on absolute paths (cross-check)
    let alpha: [&[u8]; 4] = [b"", b".", b"..", b"a"];
    for n in 0..=5usize {
        let mut idx = vec![0usize; n];
        loop {
            let segs: Vec<B> = idx.iter().map(|&i| alpha[i]).collect();
            let p = render_segments(true, &segs);
            if !(n == 0) {
                let a = remove_dot_segments_rfc(&p);
                let b = norm_render(&p);
                // (absolute, [""]) and the empty absolute path are both "/"
                if a != b {
                    return Err(format!(
                        "M-norm cross-check: {:?}: literal {:?} vs sequence {:?}",
                        String::from_utf8_lossy(&p),
                        String::from_utf8_lossy(&a),
                        String::from_utf8_lossy(&b)
                    ));
                }
            }
            let mut k = 0;
            while k < n {
                idx[k] += 1;
                if idx[k] < alpha.len() {
                    break;
                }
                idx[k] = 0;
                k += 1;
            }
            if k == n {
                break;
            }
        }
    }
    // Appendix B
    let s = split(b"http://www.ics.uci.edu/pub/ietf/uri/#Related");
    if s.scheme != Some(b"http".as_slice())
        || s.authority != Some(b"www.ics.uci.edu".as_slice())
        || s.path != b"/pub/ietf/uri/"
        || s.query.is_some()
        || s.fragment != Some(b"Related".as_slice())
    {
        return Err("M-split self-test (Appendix B example)".into());
    }
    let s = split(b"a/b:c?d#e?f#g");
    if s.scheme.is_some() || s.path != b"a/b:c" || s.query != Some(b"d".as_slice()) || s.fragment != Some(b"e?f#g".as_slice()) {
        return Err("M-split self-test 2".into());
    }
    let a = split_authority(b"u:p@[::1]:80");
    if a.user_info != Some(b"u:p".as_slice()) || a.host != b"[::1]" || a.port != Some(b"80".as_slice()) {
        return Err("M-split authority self-test".into());
    }
    if pct_decode(b"a%41%c3%A9%") != b"aA\xc3\xa9%" {
        return Err("M-pct self-test".into());
    }
    // RFC 4648 section 10
    for (d, e) in [("", ""), ("f", "Zg=="), ("fo", "Zm8="), ("foo", "Zm9v"), ("foob", "Zm9vYg=="), ("fooba", "Zm9vYmE="), ("foobar", "Zm9vYmFy")] {
        if b64_encode(d.as_bytes()) != e.as_bytes() || b64_decode(e.as_bytes()).as_deref() != Some(d.as_bytes()) {
            return Err(format!("M-b64 self-test {:?}", d));
        }
    }
    Ok(())
}
