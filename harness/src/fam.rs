//! The two type families under common names; the monitor bodies are included
//! twice so that every family-generic check runs against both (C13 lock-step).

pub mod irifam {
    #![allow(dead_code, unused_imports, unused_macros)]
    pub use iref::iri::*;
    pub use iref::iri::{IriParts as RiParts, IriRefParts as RiRefParts};
    pub use iref::{Iri as Ri, IriBuf as RiBuf, IriRef as RiRef, IriRefBuf as RiRefBuf};
    pub const IRI: bool = true;
    pub const FAM: &str = "iri";
    pub type Inner = String;
    pub fn own(s: &str) -> Inner {
        s.to_string()
    }
    /// the same text in a buffer with spare capacity
    pub fn own_spare(s: &str) -> Inner {
        let mut b = String::with_capacity(s.len() + 97);
        b.push_str(s);
        b
    }
    pub trait AsFull {
        fn as_full(&self) -> Option<&Ri>;
    }
    impl AsFull for RiRef {
        fn as_full(&self) -> Option<&Ri> {
            self.as_iri()
        }
    }
    pub trait TryIntoFull {
        fn try_into_full(self) -> Result<RiBuf, ()>;
    }
    impl TryIntoFull for RiRefBuf {
        fn try_into_full(self) -> Result<RiBuf, ()> {
            self.try_into_iri().map_err(|_| ())
        }
    }
    include!("fam_body.rs");
}

pub mod urifam {
    #![allow(dead_code, unused_imports, unused_macros)]
    pub use iref::uri::*;
    pub use iref::uri::{UriParts as RiParts, UriRefParts as RiRefParts};
    pub use iref::{Uri as Ri, UriBuf as RiBuf, UriRef as RiRef, UriRefBuf as RiRefBuf};
    pub const IRI: bool = false;
    pub const FAM: &str = "uri";
    pub type Inner = Vec<u8>;
    pub fn own(s: &str) -> Inner {
        s.as_bytes().to_vec()
    }
    /// the same text in a buffer with spare capacity
    pub fn own_spare(s: &str) -> Inner {
        let mut b = Vec::with_capacity(s.len() + 97);
        b.extend_from_slice(s.as_bytes());
        b
    }
    pub trait AsFull {
        fn as_full(&self) -> Option<&Ri>;
    }
    impl AsFull for RiRef {
        fn as_full(&self) -> Option<&Ri> {
            self.as_uri()
        }
    }
    pub trait TryIntoFull {
        fn try_into_full(self) -> Result<RiBuf, ()>;
    }
    impl TryIntoFull for RiRefBuf {
        fn try_into_full(self) -> Result<RiBuf, ()> {
            self.try_into_uri().map_err(|_| ())
        }
    }
    include!("fam_body.rs");
}

use crate::abnf::{self, Prod};

/// Does the RFC model accept `s` as production `p` in the IRI / URI family?
pub fn valid_in(p: Prod, s: &str) -> (bool, bool) {
    let iri = abnf::accepts(p, &abnf::codepoints(s), true);
    let uri = s.is_ascii() && abnf::accepts(p, &abnf::codepoints(s), false);
    (iri, uri)
}

/// Run `$f` of both families on inputs the model accepts for that family.
#[macro_export]
macro_rules! both_families {
    ($ctx:expr, $prod:expr, $s:expr, $f:ident $(, $arg:expr)*) => {{
        let (i, u) = $crate::fam::valid_in($prod, $s);
        if i {
            $crate::fam::irifam::$f($ctx, $s $(, $arg)*);
        }
        if u {
            $crate::fam::urifam::$f($ctx, $s $(, $arg)*);
        }
        if !i && !u {
            $ctx.stratum("skipped:invalid-by-model");
        }
    }};
}

/// Enumerate all strings of `len` symbols over `alpha` whose first min(2,len)
/// symbols are selected by `prefix_index`; calls `f` with each.
pub fn enum_strings(alpha: &[&str], len: usize, prefix_index: u64, mut f: impl FnMut(&str)) {
    let k = alpha.len();
    let fixed = len.min(2);
    let mut idx = vec![0usize; len];
    let mut p = prefix_index as usize;
    for i in 0..fixed {
        idx[i] = p % k;
        p /= k;
    }
    let mut buf = String::new();
    loop {
        buf.clear();
        for &i in &idx {
            buf.push_str(alpha[i]);
        }
        f(&buf);
        let mut j = fixed;
        while j < len {
            idx[j] += 1;
            if idx[j] < k {
                break;
            }
            idx[j] = 0;
            j += 1;
        }
        if j >= len {
            break;
        }
    }
}

pub fn n_prefixes(k: usize, len: usize) -> u64 {
    match len {
        0 => 1,
        1 => k as u64,
        _ => (k * k) as u64,
    }
}
