//! Per-shard monitoring context: case execution under catch_unwind, counters,
//! strata, samples, violations.  One `Ctx` per shard; merged by `main`.

use crate::rng::{hash_bytes, mix, Rng};
use serde_json::{json, Value};
use std::cell::RefCell;
use std::collections::{BTreeMap, HashSet};
use std::io::{Seek, SeekFrom, Write};
use std::panic::{catch_unwind, AssertUnwindSafe};

#[derive(Clone, Copy, PartialEq, Eq, Debug)]
pub enum Tier {
    /// very small workloads for the Miri interpreter (about four orders of magnitude slower)
    Tiny,
    Quick,
    Thorough,
}

/// A replayable case: which sub-monitor, byte-string arguments, numeric arguments.
#[derive(Clone, Debug, PartialEq, Eq)]
pub struct Case {
    pub mon: String,
    pub a: Vec<Vec<u8>>,
    pub n: Vec<u64>,
}

impl Case {
    pub fn new(mon: &str) -> Self {
        Case {
            mon: mon.to_string(),
            a: Vec::new(),
            n: Vec::new(),
        }
    }
    pub fn arg(mut self, b: impl AsRef<[u8]>) -> Self {
        self.a.push(b.as_ref().to_vec());
        self
    }
    pub fn num(mut self, n: u64) -> Self {
        self.n.push(n);
        self
    }
    pub fn s(&self, i: usize) -> &[u8] {
        &self.a[i]
    }
    pub fn fingerprint(&self) -> u64 {
        let mut h = hash_bytes(self.mon.as_bytes());
        for x in &self.a {
            h = mix(h ^ hash_bytes(x)).wrapping_add(x.len() as u64);
        }
        for x in &self.n {
            h = mix(h ^ *x);
        }
        h
    }
    pub fn to_json(&self) -> Value {
        json!({
            "mon": self.mon,
            "a": self.a.iter().map(|b| bytes_json(b)).collect::<Vec<_>>(),
            "n": self.n,
        })
    }
    pub fn from_json(v: &Value) -> Option<Case> {
        let mon = v.get("mon")?.as_str()?.to_string();
        let mut a = Vec::new();
        for x in v.get("a")?.as_array()? {
            a.push(json_bytes(x)?);
        }
        let mut n = Vec::new();
        for x in v.get("n")?.as_array()? {
            n.push(x.as_u64()?);
        }
        Some(Case { mon, a, n })
    }
}

pub fn bytes_json(b: &[u8]) -> Value {
    match std::str::from_utf8(b) {
        Ok(s) => json!({ "s": s }),
        Err(_) => json!({ "hex": b.iter().map(|x| format!("{:02x}", x)).collect::<String>() }),
    }
}
pub fn json_bytes(v: &Value) -> Option<Vec<u8>> {
    if let Some(s) = v.get("s") {
        return Some(s.as_str()?.as_bytes().to_vec());
    }
    let h = v.get("hex")?.as_str()?;
    let hb = h.as_bytes();
    if hb.len() % 2 != 0 {
        return None;
    }
    let mut r = Vec::new();
    for ch in hb.chunks(2) {
        r.push(u8::from_str_radix(std::str::from_utf8(ch).ok()?, 16).ok()?);
    }
    Some(r)
}
/// Lossy display of bytes for messages.
pub fn show(b: &[u8]) -> String {
    match std::str::from_utf8(b) {
        Ok(s) => format!("{:?}", s),
        Err(_) => format!("bytes:{:?}", String::from_utf8_lossy(b)),
    }
}
pub fn show_opt(b: Option<&[u8]>) -> String {
    match b {
        Some(b) => format!("Some({})", show(b)),
        None => "None".into(),
    }
}

#[derive(Clone, Debug)]
pub struct Violation {
    pub clause: String,
    pub features: BTreeMap<String, String>,
    pub case: Case,
    pub detail: String,
}

pub type Feats = Vec<(&'static str, String)>;

thread_local! {
    static LAST_PANIC: RefCell<Option<String>> = const { RefCell::new(None) };
}

pub fn install_panic_hook() {
    std::panic::set_hook(Box::new(|info| {
        let msg = if let Some(s) = info.payload().downcast_ref::<&str>() {
            s.to_string()
        } else if let Some(s) = info.payload().downcast_ref::<String>() {
            s.clone()
        } else {
            "<non-string panic>".to_string()
        };
        let loc = info
            .location()
            .map(|l| format!("{}:{}", l.file(), l.line()))
            .unwrap_or_default();
        LAST_PANIC.with(|p| *p.borrow_mut() = Some(format!("{} @ {}", msg, loc)));
    }));
}

pub fn take_panic() -> String {
    LAST_PANIC
        .with(|p| p.borrow_mut().take())
        .unwrap_or_else(|| "<panic>".into())
}

/// Run a library call under catch_unwind; `Err(message)` on panic.
pub fn guard<T>(f: impl FnOnce() -> T) -> Result<T, String> {
    match catch_unwind(AssertUnwindSafe(f)) {
        Ok(v) => Ok(v),
        Err(_) => Err(take_panic()),
    }
}

pub type ExecFn = fn(&mut Ctx, &Case);

pub struct Ctx {
    pub prop: &'static str,
    pub tier: Tier,
    pub seed: u64,
    pub shard: u64,
    pub nshards: u64,
    pub exec: ExecFn,
    pub evals: u64,
    pub distinct: HashSet<u64>,
    pub distinct_cap: usize,
    pub distinct_saturated: bool,
    pub strata: BTreeMap<String, u64>,
    pub calls: BTreeMap<&'static str, u64>,
    pub samples_first: Vec<Value>,
    pub samples_res: Vec<Value>,
    sample_rng: Rng,
    sample_seen: u64,
    pub violations: Vec<Violation>,
    pub violation_count: u64,
    sig_counts: BTreeMap<String, u32>,
    cur: Option<Case>,
    pub trace: Option<std::fs::File>,
    pub panics_caught: u64,
    /// free-form numbers (states, transitions...) merged by addition
    pub extra: BTreeMap<String, u64>,
    /// free-form sets merged by union (distinct abstract states etc.)
    pub sets: BTreeMap<String, HashSet<u64>>,
    /// sampling mode (sanitizer stages): cases are not executed but reservoir-sampled, stratified by
    /// sub-monitor, so that a uniform sample of the workload can be replayed under an interpreter
    pub dump: Option<Dump>,
}

pub struct Dump {
    pub per_mon: usize,
    pub max_bytes: usize,
    pub seen: BTreeMap<String, u64>,
    pub kept: BTreeMap<String, Vec<Case>>,
    pub rng: Rng,
}

impl Dump {
    pub fn new(per_mon: usize, max_bytes: usize, rng: Rng) -> Self {
        Dump { per_mon, max_bytes, seen: BTreeMap::new(), kept: BTreeMap::new(), rng }
    }
    fn offer(&mut self, case: Case) {
        if case.a.iter().map(|x| x.len()).sum::<usize>() > self.max_bytes {
            return;
        }
        let seen = self.seen.entry(case.mon.clone()).or_insert(0);
        *seen += 1;
        let kept = self.kept.entry(case.mon.clone()).or_default();
        if kept.len() < self.per_mon {
            kept.push(case);
        } else {
            let k = (self.rng.next() % *seen) as usize;
            if k < self.per_mon {
                kept[k] = case;
            }
        }
    }
}

impl Ctx {
    pub fn new(prop: &'static str, tier: Tier, seed: u64, shard: u64, nshards: u64, exec: ExecFn) -> Self {
        Ctx {
            prop,
            tier,
            seed,
            shard,
            nshards,
            exec,
            evals: 0,
            distinct: HashSet::new(),
            distinct_cap: 400_000,
            distinct_saturated: false,
            strata: BTreeMap::new(),
            calls: BTreeMap::new(),
            samples_first: Vec::new(),
            samples_res: Vec::new(),
            sample_rng: Rng::for_case(seed, prop, "samples", shard, 0),
            sample_seen: 0,
            violations: Vec::new(),
            violation_count: 0,
            sig_counts: BTreeMap::new(),
            cur: None,
            trace: None,
            panics_caught: 0,
            extra: BTreeMap::new(),
            sets: BTreeMap::new(),
            dump: None,
        }
    }

    pub fn quick(&self) -> bool {
        self.tier != Tier::Thorough
    }
    pub fn tiny(&self) -> bool {
        self.tier == Tier::Tiny
    }
    /// pick by tier (the tiny tier takes the quick value; use `random_budget` for counts)
    pub fn by_tier<T>(&self, q: T, t: T) -> T {
        if self.quick() {
            q
        } else {
            t
        }
    }
    /// number of random cases for this shard: `tiny_total` in the tiny tier (whole run), else by tier
    pub fn random_budget(&self, tiny_total: u64, q: u64, t: u64) -> u64 {
        match self.tier {
            Tier::Tiny => (tiny_total + self.nshards - 1) / self.nshards,
            Tier::Quick => q / self.nshards,
            Tier::Thorough => t / self.nshards,
        }
    }
    pub fn rng(&self, gen: &str, index: u64) -> Rng {
        Rng::for_case(self.seed, self.prop, gen, self.shard, index)
    }
    /// Is enumeration index `i` owned by this shard?
    pub fn mine(&self, i: u64) -> bool {
        i % self.nshards == self.shard
    }

    /// Execute one replayable case through the property's `exec` function.
    pub fn run(&mut self, case: Case) {
        if let Some(d) = self.dump.as_mut() {
            self.evals += 1;
            if !matches!(case.mon.as_str(), "enum" | "exh" | "all-masks" | "sweep-char" | "sweep-byte") {
                d.offer(case);
            }
            return;
        }
        if let Some(f) = self.trace.as_mut() {
            let s = case.to_json().to_string();
            let _ = f.set_len(0);
            let _ = f.seek(SeekFrom::Start(0));
            let _ = f.write_all(s.as_bytes());
        }
        self.evals += 1;
        let batch = matches!(case.mon.as_str(), "enum" | "exh" | "all-masks" | "sweep-char" | "sweep-byte");
        if batch {
        } else {
        self.sample_seen += 1;
        if self.samples_first.len() < 3 {
            self.samples_first.push(case.to_json());
        } else if self.sample_rng.below(self.sample_seen as usize) < 4 {
            if self.samples_res.len() < 4 {
                self.samples_res.push(case.to_json());
            } else {
                let k = self.sample_rng.below(4);
                self.samples_res[k] = case.to_json();
            }
        }
        }
        let exec = self.exec;
        self.cur = Some(case);
        let cur = self.cur.clone().unwrap();
        let r = catch_unwind(AssertUnwindSafe(|| exec(self, &cur)));
        if r.is_err() {
            let msg = take_panic();
            self.panics_caught += 1;
            let clause = format!("{}.panic", self.prop);
            self.fail(&clause, vec![], format!("a call panicked outside any guarded region: {}", msg));
        }
        self.cur = None;
    }

    /// For batch cases (exhaustive enumerations): should the expanded sub-case about to be
    /// executed be written into the samples?  (reservoir decision; cheap when false)
    pub fn want_sample(&mut self) -> bool {
        self.sample_seen += 1;
        self.samples_first.len() < 3 || self.sample_rng.below(self.sample_seen as usize) < 4
    }
    pub fn note_sample(&mut self, case: Case) {
        if self.samples_first.len() < 3 {
            self.samples_first.push(case.to_json());
        } else if self.samples_res.len() < 4 {
            self.samples_res.push(case.to_json());
        } else {
            let k = self.sample_rng.below(4);
            self.samples_res[k] = case.to_json();
        }
    }

    pub fn call(&mut self, name: &'static str) {
        *self.calls.entry(name).or_insert(0) += 1;
    }
    pub fn stratum(&mut self, name: &str) {
        *self.strata.entry(name.to_string()).or_insert(0) += 1;
    }
    pub fn stratum_n(&mut self, name: &str, n: u64) {
        *self.strata.entry(name.to_string()).or_insert(0) += n;
    }
    pub fn add(&mut self, name: &str, n: u64) {
        *self.extra.entry(name.to_string()).or_insert(0) += n;
    }
    pub fn set_insert(&mut self, name: &str, v: u64) {
        let s = self.sets.entry(name.to_string()).or_default();
        if s.len() < 2_000_000 {
            s.insert(v);
        }
    }
    /// Count a distinct non-trivial case by fingerprint.
    pub fn nontrivial(&mut self, fp: u64) {
        if self.distinct.len() < self.distinct_cap {
            self.distinct.insert(fp);
        } else {
            self.distinct_saturated = true;
        }
    }
    pub fn nontrivial_cur(&mut self) {
        if let Some(c) = &self.cur {
            let fp = c.fingerprint();
            self.nontrivial(fp);
        }
    }

    /// Record a violation for the current case.
    pub fn fail(&mut self, clause: &str, feats: Feats, detail: String) {
        let case = self.cur.clone().unwrap_or_else(|| Case::new("?"));
        self.fail_case(clause, feats, case, detail)
    }
    pub fn fail_case(&mut self, clause: &str, feats: Feats, case: Case, detail: String) {
        self.violation_count += 1;
        let features: BTreeMap<String, String> = feats.into_iter().map(|(k, v)| (k.to_string(), v)).collect();
        let sig = format!("{}|{:?}", clause, features);
        let c = self.sig_counts.entry(sig).or_insert(0);
        *c += 1;
        if *c <= 3 && self.violations.len() < 400 {
            self.violations.push(Violation {
                clause: clause.to_string(),
                features,
                case,
                detail,
            });
        }
    }
    /// Guarded library call: a panic is recorded as a violation of `clause`.
    pub fn guarded<T>(&mut self, clause: &str, feats: &dyn Fn() -> Feats, what: &str, f: impl FnOnce() -> T) -> Option<T> {
        match guard(f) {
            Ok(v) => Some(v),
            Err(msg) => {
                self.panics_caught += 1;
                self.fail(clause, feats(), format!("{} panicked: {}", what, msg));
                None
            }
        }
    }

    pub fn merge(&mut self, o: Ctx) {
        self.evals += o.evals;
        for x in o.distinct {
            if self.distinct.len() < 8_000_000 {
                self.distinct.insert(x);
            } else {
                self.distinct_saturated = true;
            }
        }
        self.distinct_saturated |= o.distinct_saturated;
        for (k, v) in o.strata {
            *self.strata.entry(k).or_insert(0) += v;
        }
        for (k, v) in o.calls {
            *self.calls.entry(k).or_insert(0) += v;
        }
        for (k, v) in o.extra {
            *self.extra.entry(k).or_insert(0) += v;
        }
        for (k, v) in o.sets {
            let s = self.sets.entry(k).or_default();
            for x in v {
                s.insert(x);
            }
        }
        for s in o.samples_first {
            if self.samples_first.len() < 4 {
                self.samples_first.push(s)
            }
        }
        for s in o.samples_res {
            if self.samples_res.len() < 8 {
                self.samples_res.push(s)
            }
        }
        self.violation_count += o.violation_count;
        self.panics_caught += o.panics_caught;
        for v in o.violations {
            let sig = format!("{}|{:?}", v.clause, v.features);
            let c = self.sig_counts.entry(sig).or_insert(0);
            *c += 1;
            if *c <= 3 && self.violations.len() < 600 {
                self.violations.push(v);
            }
        }
    }

    pub fn to_json(&self, wall_s: f64, rule: &str, mandatory: &[&str]) -> Value {
        let mut samples = self.samples_first.clone();
        samples.extend(self.samples_res.iter().cloned());
        let empty: Vec<&str> = mandatory
            .iter()
            .filter(|m| self.strata.get(**m).copied().unwrap_or(0) == 0)
            .copied()
            .collect();
        json!({
            "property": self.prop,
            "tier": match self.tier { Tier::Tiny => "tiny", Tier::Quick => "quick", Tier::Thorough => "thorough" },
            "seed": self.seed,
            "evaluations": self.evals,
            "distinct_nontrivial": self.distinct.len(),
            "distinct_saturated": self.distinct_saturated,
            "rule": rule,
            "samples": samples,
            "strata": self.strata,
            "calls": self.calls,
            "extra": self.extra,
            "sets": self.sets.iter().map(|(k, v)| (k.clone(), v.len())).collect::<BTreeMap<_, _>>(),
            "panics_caught": self.panics_caught,
            "violation_count": self.violation_count,
            "empty_mandatory_strata": empty,
            "violations": self.violations.iter().map(|v| json!({
                "clause": v.clause,
                "features": v.features,
                "case": v.case.to_json(),
                "detail": v.detail,
            })).collect::<Vec<_>>(),
            "wall_s": wall_s,
        })
    }
}
